#!/bin/bash
# usage: notes/trymut.sh seeded/C02-g/patch.diff C02 [extra env]   -- run one quick check against a scratch copy with the patch
set -e
P=$1; PROP=$2
W=/dev/shm/trymut-$$
rm -rf $W; cp -r /repo $W; rm -rf $W/.git
( cd $W && git init -q . >/dev/null 2>&1; git apply --whitespace=nowarn /verif/$P )
mkdir -p /var/tmp/trymut-$$
VF_REPO=$W PYTHONPATH=$W VF_NO_EVIDENCE=1 PYTHONDONTWRITEBYTECODE=1 TMPDIR=/var/tmp/trymut-$$ /verif/check $PROP ${@:3} 2>&1 | cut -c1-700 | grep -v "^KNOWN" | head -12
rm -rf $W /var/tmp/trymut-$$
