"""Reading histories from disk with the independent reader (O3) and running sealing commands while tracking
what was newly written."""
import os

from . import drive, world
from .oracle import xmlread

ASC = "ascmhl"
CHAIN = "ascmhl_chain.xml"


def asc_dir(root, h):
    return os.path.join(root, ASC) if h == "." else os.path.join(root, h, ASC)


def listing(root):
    """{history rel: {name: bytes}} of every ascmhl folder below root"""
    out = {}
    for h in world.find_histories(root):
        d = asc_dir(root, h)
        files = {}
        for n in sorted(os.listdir(d)):
            p = os.path.join(d, n)
            if os.path.isfile(p):
                with open(p, "rb") as f:
                    files[n] = f.read()
            else:
                files[n] = None
        out[h] = files
    return out


def new_files(before, after):
    """{history: [names new in after]}"""
    out = {}
    for h, files in after.items():
        b = before.get(h, {})
        nw = [n for n in files if n not in b]
        if nw or h not in before:
            out[h] = sorted(nw)
    return out


def gen_no(name):
    try:
        return int(name.split("_", 1)[0])
    except ValueError:
        return None


def load_history(root, h="."):
    """[(generation number, file name, parsed manifest)] sorted by number, and the parsed chain (or None)"""
    d = asc_dir(root, h)
    ms = []
    for n in sorted(os.listdir(d)):
        if n.endswith(".mhl") and not n.startswith("._") and gen_no(n) is not None:
            ms.append((gen_no(n), n, xmlread.read_manifest(os.path.join(d, n))))
    ms.sort(key=lambda x: x[0])
    chain = None
    cp = os.path.join(d, CHAIN)
    if os.path.exists(cp):
        chain = xmlread.read_chain(cp)
    return ms, chain


def latest_patterns(root, h="."):
    ms, _ = load_history(root, h) if os.path.isdir(asc_dir(root, h)) else ([], None)
    if not ms:
        return None
    pi = ms[-1][2]["processinfo"]
    return list(pi["ignore"]) if pi and pi["ignore"] is not None else None


def create(root, formats=None, extra=(), cwd=None, root_arg=None):
    """run `create`, returns (Res, {history: [new manifest names]}, listing_before, listing_after)"""
    before = listing(root)
    argv = [root_arg or root] + (world.fmt_args(formats) if formats else []) + list(extra)
    r = drive.run("create", argv, cwd=cwd)
    after = listing(root)
    return r, new_files(before, after), before, after


def file_entries(rec):
    """{format: [(digest, action)]} of a file record"""
    out = {}
    for f, d, a, _ in rec["entries"]:
        out.setdefault(f, []).append((d, a))
    return out


def renumber_flat_history(root, offset):
    """rename the manifests of the (flat) root history to generation numbers + offset and rewrite the chain file
    accordingly (manifest bytes, and therefore their c4, stay the same).  Returns the new highest number.
    Nothing is touched when the chain cannot be rewritten (RuntimeError)."""
    import re as _re

    def esc(t):
        return t.replace("&", "&amp;").replace("<", "&lt;").replace(">", "&gt;").replace("\r", "&#13;")

    d = asc_dir(root, ".")
    names = sorted(n for n in os.listdir(d) if n.endswith(".mhl") and not n.startswith("._") and gen_no(n) is not None)
    chain_p = os.path.join(d, CHAIN)
    with open(chain_p, "rb") as f:
        chain = f.read().decode("utf-8")
    top = 0
    renames = []
    for n in sorted(names, key=gen_no, reverse=True):
        no = gen_no(n)
        new = "%04d" % (no + offset) + n[len(n.split("_", 1)[0]) :]
        pat = _re.compile(r'(<hashlist sequencenr=")%d(">\s*<path>)%s(</path>)' % (no, _re.escape(esc(n))))
        chain, k = pat.subn(lambda m, no=no, new=new: m.group(1) + str(no + offset) + m.group(2) + esc(new) + m.group(3), chain)
        if k != 1:
            raise RuntimeError("could not renumber chain entry of " + repr(n))
        renames.append((n, new))
        top = max(top, no + offset)
    for n, new in renames:
        os.rename(os.path.join(d, n), os.path.join(d, new))
    with open(chain_p, "wb") as f:
        f.write(chain.encode("utf-8"))
    return top
