"""Process bootstrap: locate the repository under observation, scratch space, seeds."""
import atexit
import hashlib
import os
import random
import shutil
import sys
import tempfile

VERIF = os.path.dirname(os.path.dirname(os.path.abspath(__file__)))
REPO = os.path.abspath(os.environ.get("VF_REPO", "/repo"))
PY = "/venv/bin/python" if os.path.exists("/venv/bin/python") else sys.executable
FORMATS = ["md5", "sha1", "xxh128", "xxh3", "xxh64", "c4"]


def bootstrap():
    """Put the repository's working tree first on sys.path and make sure that is what gets imported."""
    if REPO not in sys.path[:1]:
        sys.path.insert(0, REPO)
    deps = os.path.join(VERIF, ".deps")
    if os.path.isdir(deps) and deps not in sys.path:
        sys.path.append(deps)
    import ascmhl  # noqa

    where = os.path.dirname(os.path.abspath(ascmhl.__file__))
    if os.path.dirname(where) != REPO:
        print(f"INCONCLUSIVE reason=wrong-import ascmhl from {where}, expected {REPO}")
        sys.exit(2)
    return ascmhl


_SB = []


def scratch_base():
    if not _SB:
        _SB.append(_scratch_base())
    return _SB[0]


def _scratch_base():
    b = os.environ.get("VERIF_SCRATCH")
    if b:
        os.makedirs(b, exist_ok=True)
        return b
    if os.path.isdir("/dev/shm") and os.access("/dev/shm", os.W_OK):
        return "/dev/shm"
    return tempfile.gettempdir()


_made = []
_counter = [0]


def new_scratch(tag=""):
    """A fresh directory unique to this process; removed at exit. Component names never match generated patterns."""
    _counter[0] += 1
    d = os.path.join(scratch_base(), f"vf-{os.getpid()}-{_counter[0]}{tag}")
    if os.path.exists(d):
        shutil.rmtree(d, ignore_errors=True)
    os.makedirs(d)
    _made.append(d)
    return d


def drop_scratch(d):
    shutil.rmtree(d, ignore_errors=True)
    if d in _made:
        _made.remove(d)


@atexit.register
def _cleanup():
    for d in list(_made):
        shutil.rmtree(d, ignore_errors=True)


def rng_for(*parts):
    h = hashlib.sha256(":".join(str(p) for p in parts).encode()).digest()
    return random.Random(int.from_bytes(h[:8], "big"))


def base_seed():
    try:
        return int(os.environ.get("VERIF_SEED", "0"))
    except ValueError:
        return 0
