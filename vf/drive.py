"""Execute commands of the real tool and record what a user would observe.

in-process: click.testing.CliRunner on ascmhl.commands.<cmd> (or the cli groups) – exit code, stdout, stderr and the
uncaught exception, if any (an internal error = non-SystemExit exception = traceback + exit 1 for a user).
sub-process: the same through `python -m vf.cli_entry` or the console scripts."""
import os
import signal
import subprocess
import sys
import threading
import time

from . import env

_runner = None
CMDS = {}


def _load():
    global _runner
    if _runner is None:
        env.bootstrap()
        from click.testing import CliRunner
        import ascmhl.commands as c

        _runner = CliRunner(mix_stderr=False)
        CMDS.update(
            {
                "create": c.create,
                "verify": c.verify,
                "diff": c.diff,
                "info": c.info,
                "flatten": c.flatten,
                "hash": c.hash,
                "xsd-schema-check": c.xsd_schema_check,
            }
        )
    return _runner


class Res:
    __slots__ = ("cmd", "argv", "exit", "out", "err", "exc", "wall")

    def __init__(self, cmd, argv, exit, out, err, exc, wall):
        self.cmd, self.argv, self.exit, self.out, self.err, self.exc, self.wall = cmd, argv, exit, out, err, exc, wall

    @property
    def internal(self):
        """True when the command died with an exception that is not a deliberate exit"""
        return self.exc is not None and not isinstance(self.exc, SystemExit)

    @property
    def exc_class(self):
        return type(self.exc).__name__ if self.internal else None

    @property
    def text(self):
        return (self.out or "") + "\n" + (self.err or "")

    def brief(self):
        d = {"cmd": self.cmd, "argv": self.argv, "exit": self.exit}
        if self.internal:
            d["exception"] = f"{type(self.exc).__name__}: {str(self.exc)[:200]}"
            d["where"] = exc_where(self.exc)
        return d


def exc_where(exc):
    tb = exc.__traceback__
    last = None
    while tb is not None:
        fn = tb.tb_frame.f_code.co_filename
        if os.sep + "ascmhl" + os.sep in fn:
            last = f"{os.path.basename(fn)}:{tb.tb_frame.f_code.co_name}"
        tb = tb.tb_next
    return last


# ---- spelling of path arguments: the same folder / file can be named in many ways on a command line
SPELL = {"rng": None, "root": 0.3, "sf": 0.25}
_ROOT_CMDS = {"create", "verify", "diff", "info", "flatten"}


def _respell(cmd, argv, cwd):
    rng = SPELL["rng"]
    if rng is None or cwd is not None or cmd not in _ROOT_CMDS:
        return argv, cwd
    argv = list(argv)
    for i, a in enumerate(argv):
        if i > 0 and argv[i - 1] == "-sf" and os.path.isabs(a) and os.path.lexists(a) and rng.random() < SPELL["sf"]:
            base = argv[0].rstrip("/") if argv and os.path.isabs(argv[0]) else None
            if not base or not a.startswith(base + "/"):
                continue
            parts = a.split("/")
            lo = len(base.split("/"))  # only below the root folder: everything above belongs to other cases / processes
            j = rng.randrange(lo, len(parts))
            k = rng.choice(["dot", "slash", "updown"])
            if k == "dot":
                parts.insert(j, ".")
            elif k == "slash":
                parts.insert(j, "")
            else:
                parent = "/".join(parts[:j])
                sib = [n for n in os.listdir(parent) if os.path.isdir(os.path.join(parent, n)) and not os.path.islink(os.path.join(parent, n))] if os.path.isdir(parent) else []
                if sib:
                    parts[j:j] = [rng.choice(sorted(sib)), ".."]
            argv[i] = "/".join(parts)
    if argv and os.path.isabs(argv[0]) and os.path.isdir(argv[0]) and not argv[0].endswith("/") and rng.random() < SPELL["root"]:
        root = argv[0]
        k = rng.choice(["slash", "rel", "dotslash", "dot", "slashes", "dotdot"])
        if k == "dotdot":
            # the root reached through one of its own real sub folders: ROOT/sub/..
            try:
                subs = sorted(n for n in os.listdir(root) if n != "ascmhl" and os.path.isdir(os.path.join(root, n)) and not os.path.islink(os.path.join(root, n)))
            except OSError:
                subs = []
            if subs:
                argv[0] = root + "/" + rng.choice(subs) + "/.."
            else:
                k = "slash"
        if k == "slash":
            argv[0] = root + "/"
        elif k == "slashes":
            # redundant separators at the end ("$DIR/" + "/", completion + script concatenation) name the same folder
            argv[0] = root + rng.choice(["//", "///", "/.//"])
        elif k == "rel":
            b = os.path.basename(root)
            argv[0], cwd = ("./" + b if b.startswith("-") else b), os.path.dirname(root)  # a leading dash would be read as an option
        elif k == "dotslash":
            argv[0], cwd = "./" + os.path.basename(root) + "/", os.path.dirname(root)
        else:
            argv[0], cwd = ".", root
    return argv, cwd


VERBOSE = {"rng": None, "rate": 0.15}
HANG_SECONDS = 60.0  # first look at the clock
HANG_CPU_SECONDS = 75.0  # CPU time one command may burn (record lookup is linear per file: a 4000-file tree needs 10-20 s)


class CommandHang(Exception):
    """an in-process command did not return within HANG_SECONDS (pure-Python endless loop): reported as internal error"""


_HANG = {"cpu0": 0.0, "wall0": 0.0}


def _hang(signum, frame):
    # the verdict is on CPU time the command itself consumed (an endless loop burns it); on a loaded machine the
    # wall-clock alarm alone says nothing, so it is re-armed until the command has had its share (or 15 min passed)
    cpu = time.process_time() - _HANG["cpu0"]
    if cpu < HANG_CPU_SECONDS and time.monotonic() - _HANG["wall0"] < 900:
        signal.setitimer(signal.ITIMER_REAL, 30.0)
        return
    raise CommandHang("command still running after %.0f s of CPU time" % HANG_CPU_SECONDS)


def run(cmd, argv, cwd=None):
    r = _load()
    argv = [str(a) for a in argv]
    argv, cwd = _respell(cmd, argv, cwd)
    vr = VERBOSE["rng"]
    if vr is not None and cmd in ("create", "verify", "diff", "flatten") and "-v" not in argv and "--help" not in argv and vr.random() < VERBOSE["rate"]:
        argv = argv + ["-v"]  # verbose output takes other logging paths; results must be the same
    old = os.getcwd()
    if cwd:
        os.chdir(cwd)
    t0 = time.monotonic()
    armed = False
    try:
        if threading.current_thread() is threading.main_thread():
            signal.signal(signal.SIGALRM, _hang)
            _HANG["cpu0"], _HANG["wall0"] = time.process_time(), time.monotonic()
            signal.setitimer(signal.ITIMER_REAL, HANG_SECONDS)
            armed = True
        res = r.invoke(CMDS[cmd], argv, catch_exceptions=True)
    finally:
        if armed:
            signal.setitimer(signal.ITIMER_REAL, 0)
        if cwd:
            os.chdir(old)
    exc = res.exception
    out = Res(cmd, argv, res.exit_code, res.stdout, res.stderr, exc, time.monotonic() - t0)
    _divergence_audit(out, cwd)
    return out


class HarnessDivergence(RuntimeError):
    """in-process and sub-process execution of the same read-only command disagree: a harness problem, never a verdict"""


AUDIT = {"rate": float(os.environ.get("VF_AUDIT_RATE", "0.004")), "n": 0, "done": 0, "rng": None}
_READONLY = {"verify", "diff", "info", "hash"}


def _divergence_audit(r, cwd):
    """DESIGN 2.2: a sample of the read-only in-process commands is repeated through a real sub-process
    (`python -m vf.cli_entry bare:<cmd>`, no shims except TZ) and exit code + stdout are compared."""
    if r.cmd not in _READONLY or AUDIT["rate"] <= 0:
        return
    import random

    if AUDIT["rng"] is None:
        AUDIT["rng"] = random.Random(os.getpid())
    AUDIT["n"] += 1
    if AUDIT["rng"].random() >= AUDIT["rate"]:
        return
    from . import clock, listing

    if clock._state["now"] is not None and r.cmd == "verify" and "-co" in r.argv:
        return
    text = (r.out or "") + "\x00".join(str(a) for a in r.argv) + (repr(r.exc) if r.exc is not None else "")
    if any(0xD800 <= ord(ch) <= 0xDFFF for ch in text):
        # names with bytes that are not UTF-8 do not pass a text pipe the same way as an in-memory stream: not comparable
        AUDIT["skipped_not_utf8"] = AUDIT.get("skipped_not_utf8", 0) + 1
        return
    sub = run_sub("bare:" + r.cmd, r.argv, cwd=cwd, timeout=120)
    AUDIT["done"] += 1
    exit_in = 1 if r.internal else r.exit
    # (click's test runner hands out its captured output with "\r\n" turned into "\n": a name may contain that pair)
    if sub.exit != exit_in or (r.out or "").replace("\r\n", "\n") != (sub.out or "").replace("\r\n", "\n"):
        raise HarnessDivergence(f"{r.cmd} {r.argv}: in-process exit={exit_in} sub-process exit={sub.exit}; stdout equal={(r.out or '') == (sub.out or '')}")


def run_sub(tool, argv, cwd=None, extra_env=None, timeout=120, shim_env=None):
    """tool: 'ascmhl' | 'ascmhl-debug' | 'bare:<cmd>' ; runs python -m vf.cli_entry so shims can be active in the child."""
    e = dict(os.environ)
    e["PYTHONPATH"] = env.REPO + os.pathsep + env.VERIF
    e["VF_REPO"] = env.REPO
    e["PYTHONDONTWRITEBYTECODE"] = "1"
    e["PYTHONUTF8"] = "1"
    e["PYTHONIOENCODING"] = "utf-8"
    if extra_env:
        e.update(extra_env)
    if shim_env:
        e.update(shim_env)
    t0 = time.monotonic()
    try:
        p = subprocess.run(
            [env.PY, "-m", "vf.cli_entry", tool] + [str(a) for a in argv],
            cwd=cwd,
            env=e,
            stdout=subprocess.PIPE,
            stderr=subprocess.PIPE,
            timeout=timeout,
        )
        return Res(tool, argv, p.returncode, p.stdout.decode("utf-8", "replace"), p.stderr.decode("utf-8", "replace"), None, time.monotonic() - t0)
    except subprocess.TimeoutExpired as te:
        return Res(tool, argv, None, (te.stdout or b"").decode("utf-8", "replace"), (te.stderr or b"").decode("utf-8", "replace"), None, time.monotonic() - t0)
