"""Execute commands of the real tool and record what a user would observe.

in-process: click.testing.CliRunner on ascmhl.commands.<cmd> (or the cli groups) – exit code, stdout, stderr and the
uncaught exception, if any (an internal error = non-SystemExit exception = traceback + exit 1 for a user).
sub-process: the same through `python -m vf.cli_entry` or the console scripts."""
import os
import subprocess
import sys
import time

from . import env

_runner = None
CMDS = {}


def _load():
    global _runner
    if _runner is None:
        env.bootstrap()
        from click.testing import CliRunner
        import ascmhl.commands as c

        _runner = CliRunner(mix_stderr=False)
        CMDS.update(
            {
                "create": c.create,
                "verify": c.verify,
                "diff": c.diff,
                "info": c.info,
                "flatten": c.flatten,
                "hash": c.hash,
                "xsd-schema-check": c.xsd_schema_check,
            }
        )
    return _runner


class Res:
    __slots__ = ("cmd", "argv", "exit", "out", "err", "exc", "wall")

    def __init__(self, cmd, argv, exit, out, err, exc, wall):
        self.cmd, self.argv, self.exit, self.out, self.err, self.exc, self.wall = cmd, argv, exit, out, err, exc, wall

    @property
    def internal(self):
        """True when the command died with an exception that is not a deliberate exit"""
        return self.exc is not None and not isinstance(self.exc, SystemExit)

    @property
    def exc_class(self):
        return type(self.exc).__name__ if self.internal else None

    @property
    def text(self):
        return (self.out or "") + "\n" + (self.err or "")

    def brief(self):
        d = {"cmd": self.cmd, "argv": self.argv, "exit": self.exit}
        if self.internal:
            d["exception"] = f"{type(self.exc).__name__}: {str(self.exc)[:200]}"
            d["where"] = exc_where(self.exc)
        return d


def exc_where(exc):
    tb = exc.__traceback__
    last = None
    while tb is not None:
        fn = tb.tb_frame.f_code.co_filename
        if os.sep + "ascmhl" + os.sep in fn:
            last = f"{os.path.basename(fn)}:{tb.tb_frame.f_code.co_name}"
        tb = tb.tb_next
    return last


def run(cmd, argv, cwd=None):
    r = _load()
    argv = [str(a) for a in argv]
    old = os.getcwd()
    if cwd:
        os.chdir(cwd)
    t0 = time.monotonic()
    try:
        res = r.invoke(CMDS[cmd], argv, catch_exceptions=True)
    finally:
        if cwd:
            os.chdir(old)
    exc = res.exception
    return Res(cmd, argv, res.exit_code, res.stdout, res.stderr, exc, time.monotonic() - t0)


def run_sub(tool, argv, cwd=None, extra_env=None, timeout=120, shim_env=None):
    """tool: 'ascmhl' | 'ascmhl-debug' | 'bare:<cmd>' ; runs python -m vf.cli_entry so shims can be active in the child."""
    e = dict(os.environ)
    e["PYTHONPATH"] = env.REPO + os.pathsep + env.VERIF
    e["VF_REPO"] = env.REPO
    e["PYTHONDONTWRITEBYTECODE"] = "1"
    if extra_env:
        e.update(extra_env)
    if shim_env:
        e.update(shim_env)
    t0 = time.monotonic()
    try:
        p = subprocess.run(
            [env.PY, "-m", "vf.cli_entry", tool] + [str(a) for a in argv],
            cwd=cwd,
            env=e,
            stdout=subprocess.PIPE,
            stderr=subprocess.PIPE,
            timeout=timeout,
        )
        return Res(tool, argv, p.returncode, p.stdout.decode("utf-8", "replace"), p.stderr.decode("utf-8", "replace"), None, time.monotonic() - t0)
    except subprocess.TimeoutExpired as te:
        return Res(tool, argv, None, (te.stdout or b"").decode("utf-8", "replace"), (te.stderr or b"").decode("utf-8", "replace"), None, time.monotonic() - t0)
