"""Mechanism classifiers shared by the monitors: violation -> key used in KNOWN_FINDINGS.txt.
Keys describe the mechanism (exception class + site, structural cause), never random values of a case."""
import re

from . import drive

_INTERNAL = [
    ("AssertionError", "_validate_new_hash_list", "new-format-validation-abort"),
    ("AttributeError", "verify_directory_hash_subcommand", "dh-none-roothash"),
    ("AttributeError", "find_directory_hash_entries_for_path", "dh-none-roothash"),
    ("KeyError", "verify_directory_hash_subcommand", "dh-format-not-computed"),
    ("IsADirectoryError", "hash_file", "dr-new-directory-format-change"),
    ("IsADirectoryError", "create_for_folder_subcommand", "dr-new-directory-format-change"),
]


def internal_key(res):
    """key for a command that died with an uncaught exception"""
    exc = res.exc_class
    where = drive.exc_where(res.exc) or ""
    for e, w, key in _INTERNAL:
        if exc == e and where.endswith(":" + w):
            return key
    return f"internal-error:{exc}@{where.split(':')[-1]}"


def internal_sig(res, cmd):
    return {"kind": "internal-error", "cmd": cmd, "exc": res.exc_class, "where": drive.exc_where(res.exc)}


_LS = re.compile("([\u2028\u2029]) +")


def linesep_mangled(written, intended):
    """True when `written` is `intended` with indentation inserted after a U+2028/U+2029 (textwrap.indent mechanism)"""
    return written is not None and intended is not None and written != intended and _LS.sub(r"\1", written) == intended and (
        "\u2028" in intended or "\u2029" in intended
    )


def has_linesep(s):
    return s is not None and ("\u2028" in s or "\u2029" in s)
