"""I1: audit-hook recorder of file-system mutating events (cannot be removed once installed; toggled)."""
import os
import sys
import threading

_installed = False
_on = False
_events = []
_lock = threading.Lock()

WRITE_FLAGS = os.O_WRONLY | os.O_RDWR | os.O_CREAT | os.O_TRUNC | os.O_APPEND
MUTATING = {
    "os.mkdir",
    "os.rmdir",
    "os.remove",
    "os.rename",
    "os.utime",
    "os.chmod",
    "os.chown",
    "os.truncate",
    "os.link",
    "os.symlink",
    "os.chflags",
    "os.setxattr",
    "os.removexattr",
    "shutil.copyfile",
    "shutil.copymode",
    "shutil.copystat",
    "shutil.copytree",
    "shutil.move",
    "shutil.rmtree",
    "shutil.chown",
    "shutil.make_archive",
    "tempfile.mkstemp",
    "tempfile.mkdtemp",
}
OTHER = {"socket.connect", "subprocess.Popen", "os.system", "os.exec", "os.posix_spawn"}


def _hook(event, args):
    if not _on:
        return
    try:
        if event == "open":
            path, mode, flags = args
            if isinstance(flags, int) and flags & WRITE_FLAGS:
                with _lock:
                    _events.append(("open-write", _s(path), flags, threading.get_ident()))
        elif event in MUTATING:
            with _lock:
                _events.append((event,) + tuple(_s(a) for a in args[:2]) + (threading.get_ident(),))
        elif event in OTHER:
            with _lock:
                _events.append((event, _s(args[0]) if args else "", "", threading.get_ident()))
    except Exception:
        pass


def _s(x):
    if isinstance(x, bytes):
        try:
            return os.fsdecode(x)
        except Exception:
            return repr(x)
    if isinstance(x, (str, int)) or x is None:
        return x
    try:
        return os.fspath(x)
    except Exception:
        return repr(x)


def install():
    global _installed
    if not _installed:
        sys.addaudithook(_hook)
        _installed = True


class record:
    """with audit.record() as ev: ...  -> ev.events is the list of mutating events seen inside"""

    def __enter__(self):
        global _on
        install()
        with _lock:
            _events.clear()
        _on = True
        self.events = []
        return self

    def __exit__(self, *a):
        global _on
        _on = False
        with _lock:
            self.events = list(_events)
            _events.clear()
        return False


def fs_mutations(events):
    return [e for e in events if e[0] == "open-write" or e[0] in MUTATING]


def target_paths(e):
    """absolute-ish target paths of a mutating event"""
    out = []
    for a in e[1:3]:
        if isinstance(a, str) and a:
            out.append(a)
    if e[0] == "open-write":
        out = [e[1]] if isinstance(e[1], str) else []
    return out
