"""./check selftest [--only substr] [--tests] [--jobs N] : kill matrix of the monitors.

For every mutants/*.patch (and seeded/*/patch.diff): copy the repository's working tree to scratch, apply the patch,
optionally run the repository's own tests on the copy (they must still pass: the break is 'silent'), run the quick check
of every property listed for the patch in mutants/index.json with VF_REPO pointing at the copy, expect exit 1."""
import json
import os
import shutil
import subprocess
import sys
import time
from concurrent.futures import ThreadPoolExecutor

from . import env


def _index():
    idx = {}
    p = os.path.join(env.VERIF, "mutants", "index.json")
    if os.path.exists(p):
        idx.update(json.load(open(p)))
    sd = os.path.join(env.VERIF, "seeded")
    if os.path.isdir(sd):
        for n in sorted(os.listdir(sd)):
            meta = os.path.join(sd, n, "meta.json")
            if os.path.exists(meta) and os.path.exists(os.path.join(sd, n, "patch.diff")):
                m = json.load(open(meta))
                if m.get("neutralised_by"):
                    continue  # a later repository fix closed this change's trigger: its own demonstration passes now
                idx["seeded/%s/patch.diff" % n] = {"props": m.get("caught_by") or [m["property"]], "note": m.get("needs", "")}
    return idx


def _one(rel, spec, with_tests, tier):
    src = os.path.join(env.VERIF, rel if rel.startswith("seeded/") else os.path.join("mutants", rel))
    work = os.path.join(env.scratch_base(), "vf-mut-%d-%s" % (os.getpid(), abs(hash(rel)) % 10**8))
    shutil.rmtree(work, ignore_errors=True)
    shutil.copytree("/repo", work, ignore=shutil.ignore_patterns(".git", "__pycache__", "*.pyc", ".pytest_cache"))
    out = {"patch": rel, "results": {}, "tests": None}
    try:
        p = subprocess.run(["git", "apply", "--whitespace=nowarn", src], cwd=work, stdout=subprocess.PIPE, stderr=subprocess.STDOUT)
        if p.returncode != 0:
            out["error"] = "patch does not apply: " + p.stdout.decode()[-300:]
            return out
        e = dict(os.environ)
        e["VF_REPO"] = work
        e["VF_NO_EVIDENCE"] = "1"
        e["PYTHONPATH"] = work
        e["PYTHONDONTWRITEBYTECODE"] = "1"
        # changes that stage files in the system temp folder must not litter the real one; it stays on another file
        # system than the scratch area (tmpfs), which some seeded changes need in order to show
        tmpd = os.path.join("/var/tmp", os.path.basename(work) + "-tmp")
        shutil.rmtree(tmpd, ignore_errors=True)
        os.makedirs(tmpd)
        e["TMPDIR"] = tmpd
        if with_tests:
            t = subprocess.run([env.PY, "-m", "pytest", "-q", "-x", "-p", "no:cacheprovider", "tests"], cwd=work, env=e, stdout=subprocess.PIPE, stderr=subprocess.STDOUT)
            out["tests"] = "pass" if t.returncode == 0 else "FAIL: " + t.stdout.decode()[-300:]
        for prop in spec["props"]:
            t0 = time.monotonic()
            c = subprocess.run([os.path.join(env.VERIF, "check"), prop, "--tier", tier], cwd=env.VERIF, env=e, stdout=subprocess.PIPE, stderr=subprocess.STDOUT)
            txt = c.stdout.decode()
            keys = sorted({w.split("=", 1)[1] for l in txt.splitlines() if l.startswith("VIOLATION") for w in l.split() if w.startswith("key=")})
            out["results"][prop] = {"exit": c.returncode, "keys": keys, "wall": round(time.monotonic() - t0, 1)}
            if c.returncode == 2:
                out["results"][prop]["inconclusive"] = [l for l in txt.splitlines() if l.startswith("INCONCLUSIVE")][:2]
    finally:
        shutil.rmtree(work, ignore_errors=True)
        shutil.rmtree(os.path.join("/var/tmp", os.path.basename(work) + "-tmp"), ignore_errors=True)
    return out


def main(argv):
    only = None
    with_tests = "--tests" in argv
    jobs = 2
    tier = "quick"
    props_filter = None
    for i, a in enumerate(argv):
        if a == "--only":
            only = argv[i + 1]
        if a == "--jobs":
            jobs = int(argv[i + 1])
        if a == "--tier":
            tier = argv[i + 1]
        if a == "--props":
            props_filter = argv[i + 1].split(",")
    idx = _index()
    todo = [(k, v) for k, v in sorted(idx.items()) if not only or only in k]
    if props_filter:
        todo = [(k, {**v, "props": [p for p in v["props"] if p in props_filter]}) for k, v in todo]
        todo = [(k, v) for k, v in todo if v["props"]]
    missed = 0
    results = []
    with ThreadPoolExecutor(max_workers=jobs) as ex:
        for r in ex.map(lambda kv: _one(kv[0], kv[1], with_tests, tier), todo):
            results.append(r)
            if "error" in r:
                print(f"ERROR   {r['patch']}: {r['error']}")
                missed += 1
                continue
            for prop, res in r["results"].items():
                ok = res["exit"] == 1 and bool(res["keys"])  # a crash of the harness also exits 1: a kill needs a VIOLATION line
                if not ok:
                    missed += 1
                print(f"{'KILLED ' if ok else 'MISSED '} {r['patch']:60s} {prop} exit={res['exit']} keys={res['keys']} {res['wall']}s" + (f" tests={r['tests']}" if r["tests"] else "") + (" " + str(res.get("inconclusive")) if res.get("inconclusive") else ""))
            sys.stdout.flush()
    last = os.path.join(env.VERIF, "mutants", "last_selftest.json")
    if (only or props_filter) and os.path.exists(last):
        # a partial run refreshes its entries in the record of the last complete run
        try:
            old = {r["patch"]: r for r in json.load(open(last))}
        except Exception:
            old = {}
        for r in results:
            if props_filter and r["patch"] in old and "results" in old[r["patch"]]:
                merged = dict(old[r["patch"]].get("results", {}))
                merged.update(r.get("results", {}))
                r = {**r, "results": merged}
            old[r["patch"]] = r
        results = [old[k] for k in sorted(old) if k in idx]
    with open(last, "w") as f:
        json.dump(results, f, indent=1)
    print(f"selftest: {len(todo)} patches, {missed} not killed")
    return 1 if missed else 0
