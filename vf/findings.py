"""KNOWN_FINDINGS.txt handling.  Lines:
   known: property=C15 key=<mechanism-key> <what fails>
   fixed: property=C11 <commit> key=<mechanism-key> <what failed>
A violation is matched by (property, key) where key is the *mechanism* classifier the monitor assigned from its
signature (never a hash of the case or random values).  `fixed:` lines suppress nothing.  Never written at run time."""
import os
import re

from . import env

PATH = os.path.join(env.VERIF, "KNOWN_FINDINGS.txt")


def load():
    known = {}
    fixed = {}
    if not os.path.exists(PATH):
        return known, fixed
    for line in open(PATH, encoding="utf-8"):
        line = line.strip()
        if not line or line.startswith("#"):
            continue
        m = re.match(r"^known:\s+property=(C\d+)\s+key=(\S+)\s+(.*)$", line)
        if m:
            known.setdefault(m.group(1), {})[m.group(2)] = m.group(3)
            continue
        m = re.match(r"^fixed:\s+property=(C\d+)\s+(\S+)\s+key=(\S+)\s+(.*)$", line)
        if m:
            fixed.setdefault(m.group(1), {})[m.group(3)] = (m.group(2), m.group(4))
    return known, fixed
