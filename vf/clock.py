"""I5: injected wall clock and time zone.

set_zone(name)  -> TZ + tzset (process wide)
freeze(epoch)   -> datetime.datetime.now()/utcnow()/today(), time.localtime()/time.gmtime() without argument and
                   platform.node() answer for the injected instant; file mtimes are real.
The replacement class is installed in the `datetime` module and in the modules of ascmhl that did
`from datetime import datetime`.  tick: every now() call advances the clock by `tick` seconds (default 0)."""
import datetime as _dtmod
import os
import platform
import sys
import time as _time

_real_datetime = _dtmod.datetime
_real_localtime = _time.localtime
_real_gmtime = _time.gmtime
_real_node = platform.node
_state = {"now": None, "tick": 0.0, "calls": 0}


class _Meta(type(_real_datetime)):
    def __instancecheck__(cls, obj):
        return isinstance(obj, _real_datetime)

    def __subclasscheck__(cls, sub):
        return issubclass(sub, _real_datetime)


class FakeDatetime(_real_datetime, metaclass=_Meta):
    @classmethod
    def now(cls, tz=None):
        t = _cur()
        return _real_datetime.fromtimestamp(t, tz)

    @classmethod
    def utcnow(cls):
        return _real_datetime.utcfromtimestamp(_cur())

    @classmethod
    def today(cls):
        return cls.now()

    # every other alternative constructor hands out plain datetime objects: CPython loses `fold` when
    # fromtimestamp() is called on a subclass, which would make the shim (not the tool) wrong in the repeated hour
    @classmethod
    def fromtimestamp(cls, t, tz=None):
        return _real_datetime.fromtimestamp(t, tz)

    @classmethod
    def utcfromtimestamp(cls, t):
        return _real_datetime.utcfromtimestamp(t)

    @classmethod
    def fromisoformat(cls, s):
        return _real_datetime.fromisoformat(s)

    @classmethod
    def strptime(cls, s, f):
        return _real_datetime.strptime(s, f)

    @classmethod
    def combine(cls, *a, **kw):
        return _real_datetime.combine(*a, **kw)

    def __new__(cls, *a, **kw):
        return _real_datetime.__new__(_real_datetime, *a, **kw)


def _cur():
    if _state["now"] is None:
        return _time.time()
    t = _state["now"]
    _state["now"] = t + _state["tick"]
    _state["calls"] += 1
    return t


def _localtime(secs=None):
    if secs is None and _state["now"] is not None:
        secs = _state["now"]
    return _real_localtime(secs) if secs is not None else _real_localtime()


def _gmtime(secs=None):
    if secs is None and _state["now"] is not None:
        secs = _state["now"]
    return _real_gmtime(secs) if secs is not None else _real_gmtime()


_patched = False


def install(host="vfhost"):
    global _patched
    _dtmod.datetime = FakeDatetime
    _time.localtime = _localtime
    _time.gmtime = _gmtime
    platform.node = lambda: host
    for name in ("ascmhl.hashlist", "ascmhl.history", "ascmhl.hashlist_xml_parser", "ascmhl.chain_xml_parser"):
        mod = sys.modules.get(name)
        if mod is not None and getattr(mod, "datetime", None) is _real_datetime:
            mod.datetime = FakeDatetime
    _patched = True


def freeze(epoch, tick=0.0):
    if not _patched:
        install()
    _state["now"] = float(epoch)
    _state["tick"] = tick
    _state["calls"] = 0


def unfreeze():
    _state["now"] = None


def calls():
    return _state["calls"]


def set_zone(name):
    if name is None:
        os.environ.pop("TZ", None)
    else:
        os.environ["TZ"] = name
    _time.tzset()
