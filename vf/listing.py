"""I4: seeded permutation of what os.listdir / os.scandir hand out (the order a file system enumerates entries)."""
import os
import random

_real_listdir = os.listdir
_real_scandir = os.scandir
_state = {"seed": None, "orders": set(), "calls": 0, "deny": None}


def deny(path):
    """listing this folder fails with PermissionError (a folder the user may not read); None switches it off"""
    install()
    _state["deny"] = os.path.abspath(path) if path else None


def _check_denied(path):
    d = _state["deny"]
    if d is not None and not isinstance(path, int) and os.path.abspath(os.fspath(path)) == d:
        raise PermissionError(13, "Permission denied", os.fspath(path))


def _perm(items, key):
    if _state["seed"] is None:
        return items
    r = random.Random(f"{_state['seed']}:{key!a}")  # ascii(): a path may hold bytes that are not UTF-8 (lone surrogates)
    items = sorted(items, key=lambda x: x if isinstance(x, (str, bytes)) else x.name)
    r.shuffle(items)
    _state["calls"] += 1
    if len(items) > 1:
        _state["orders"].add((key, tuple(x if isinstance(x, (str, bytes)) else x.name for x in items)))
    return items


def _listdir(path="."):
    _check_denied(path)
    return _perm(_real_listdir(path), os.fspath(path) if not isinstance(path, int) else str(path))


class _Scan:
    def __init__(self, path):
        with _real_scandir(path) as it:
            self._items = _perm(list(it), os.fspath(path) if not isinstance(path, int) else str(path))
        self._i = iter(self._items)

    def __iter__(self):
        return self

    def __next__(self):
        return next(self._i)

    def __enter__(self):
        return self

    def __exit__(self, *a):
        self.close()
        return False

    def close(self):
        pass


def _scandir(path="."):
    _check_denied(path)
    if _state["seed"] is None:
        return _real_scandir(path)
    return _Scan(path)


def install():
    os.listdir = _listdir
    os.scandir = _scandir


def set_seed(seed):
    """None = real order"""
    install()
    _state["seed"] = seed


def stats():
    return {"distinct_orders": len(_state["orders"]), "calls": _state["calls"]}


def real_listdir(p):
    return _real_listdir(p)
