"""One OS process per shard: runs the cases i = shard, shard+n, ... of a monitor and writes a JSON result."""
import faulthandler
import importlib
import json
import os
import sys
import time
import traceback


def main():
    prop, tier, seed, shard, nshards, out = sys.argv[1:7]
    only_case = sys.argv[7] if len(sys.argv) > 7 else None
    seed, shard, nshards = int(seed), int(shard), int(nshards)
    from . import env, case, clock, drive

    env.bootstrap()
    mon = importlib.import_module("vf.monitors." + prop.lower())
    b = mon.budget(tier)
    total, cap = b["cases"], b["seconds"]
    faulthandler.dump_traceback_later(cap * 4 + 600, exit=True)
    acc = case.new_acc()
    os.environ["TZ"] = "UTC"
    time.tzset()
    if hasattr(mon, "init"):
        mon.init(tier)
    # the system temp folder the tool would see (tempfile / $TMPDIR): per case either on the file system of the
    # scratch area or on another one (a rename across the two fails with EXDEV); the unchanged tool never uses it
    import shutil
    import tempfile

    sb = env.scratch_base()
    tmp_same = os.path.join(sb, "vf-systmp-%d" % os.getpid())
    tmp_other = None
    for cand in ("/var/tmp", "/tmp", "/dev/shm"):
        try:
            if os.path.isdir(cand) and os.access(cand, os.W_OK) and os.stat(cand).st_dev != os.stat(sb).st_dev:
                tmp_other = os.path.join(cand, "vf-systmp-%d" % os.getpid())
                break
        except OSError:
            pass
    t0 = time.monotonic()
    if only_case is not None:
        todo = [only_case]
    else:
        todo = [f"{prop}:{seed}:{tier}:{i}" for i in range(shard, total, nshards)]
    for n, seed_str in enumerate(todo):
        if time.monotonic() - t0 > cap and only_case is None:
            acc["cases_skipped_time"] += len(todo) - n
            break
        cs = case.Case(prop, seed_str, tier, acc)
        if getattr(mon, "RANDOM_ZONE", True):
            zr = env.rng_for(seed_str, "zone")
            os.environ["TZ"] = zr.choice(["UTC", "UTC", "UTC", "Europe/Berlin", "America/St_Johns", "Asia/Kolkata", "Pacific/Chatham", "America/Caracas", "Australia/Lord_Howe", "America/New_York"])
            time.tzset()
        tdir = tmp_other if tmp_other and env.rng_for(seed_str, "systmp").random() < 0.5 else tmp_same
        shutil.rmtree(tdir, ignore_errors=True)
        os.makedirs(tdir, exist_ok=True)
        tempfile.tempdir = tdir
        os.environ["TMPDIR"] = tdir
        k = "systmp:other-filesystem" if tdir is tmp_other else "systmp:same-filesystem"
        acc["counters"][k] = acc["counters"].get(k, 0) + 1
        drive.SPELL["rng"] = env.rng_for(seed_str, "spelling") if getattr(mon, "SPELLING", True) else None
        drive.VERBOSE["rng"] = env.rng_for(seed_str, "verbose") if getattr(mon, "VERBOSITY", True) else None
        try:
            mon.run_case(cs)
            acc["cases"] += 1
        except Exception as e:
            tb = traceback.extract_tb(e.__traceback__)
            in_generator = bool(tb) and tb[-1].filename.endswith(os.sep + "world.py") or (len(tb) > 1 and tb[-2].filename.endswith(os.sep + "world.py") and isinstance(e, OSError))
            if in_generator and isinstance(e, OSError):
                # the workload generator produced an unusable tree (e.g. a file and a folder with the same name):
                # the case is dropped and counted; run.py makes the run inconclusive if this is not rare
                acc["counters"]["generator_glitch_cases_dropped"] = acc["counters"].get("generator_glitch_cases_dropped", 0) + 1
            else:
                acc["harness_errors"].append({"case": seed_str, "trace": traceback.format_exc()[-3000:]})
        finally:
            try:
                clock.unfreeze()
                from . import listing

                if listing._state["seed"] is not None:
                    listing.set_seed(None)
                os.chdir(env.VERIF)
                if os.environ.get("TZ") != "UTC":
                    os.environ["TZ"] = "UTC"
                    time.tzset()
            except Exception:
                pass
            cs.cleanup()
    tempfile.tempdir = None
    for t in (tmp_same, tmp_other):
        if t:
            shutil.rmtree(t, ignore_errors=True)
    if hasattr(mon, "finish"):
        mon.finish(acc)
    acc["counters"]["divergence_audit:readonly_commands_seen"] = drive.AUDIT["n"]
    acc["counters"]["divergence_audit:repeated_in_subprocess"] = drive.AUDIT["done"]
    acc["classes"] = sorted(acc["classes"])
    acc["wall"] = time.monotonic() - t0
    with open(out, "w") as f:
        json.dump(acc, f)


if __name__ == "__main__":
    main()
