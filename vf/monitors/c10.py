"""C10 — manifests and chain files read back exactly what was written.

Oracle: the values the harness put into the model objects (model level) / the independent reader's view (command level);
both the tool's own reader and O3 (expat) must return them.  Observed: object graph returned by
hashlist_xml_parser.parse / chain_xml_parser.parse and the O3 view of the same bytes, field by field."""
import datetime as _dt
import os

from .. import classify, drive, env, hist, world
from ..oracle import refhash, xmlread

TECHNIQUE = 'runtime monitoring: write/read-back round trip compared field by field with the tool reader and an independent expat reader; icontract postconditions on the real classes while the repository tests run'
LEVEL = "exploration"
RULE = (
    "case = model level: MHLHashList / MHLChain built through the public constructors with text drawn from alphabets with "
    "spaces, non-ASCII, XML-special, Z*-separator and punctuation characters (no control characters), every format subset and "
    "action, sizes from 0, directory records, previous paths, root hash, 0-3 references, 1-5 patterns, written and re-read by "
    "both readers; command level: manifests and chains produced by create sequences read by both readers; "
    "class = (level, field, character class / value class)"
)
ASSUMPTIONS = [
    "None and empty string are one value for optional text (XML cannot distinguish them)",
    "hash dates are compared as wall-clock fields incl. microseconds (offset is C16's business); lastmodificationdate is written but not part of the statement's read-back list for the tool's reader",
]
MIN_DECIDING = {"fields_compared": 1000, "objects_roundtripped": 50, "command_level_manifests": 20}

ACTIONS = ["original", "verified", "failed"]


def budget(tier):
    return {"cases": 3000, "seconds": 55} if tier == "quick" else {"cases": 80000, "seconds": 600}


def _text(rng, path=False):
    cls = rng.choice(["plain", "space", "xml", "punct", "uni", "zsep", "dash", "dot"])
    t = world.gen_name(rng, cls, ext=path)
    if not path and rng.random() < 0.3:
        t = t + rng.choice([" ", "/", " & ", " ", "  "]) + world.gen_name(rng, rng.choice(["plain", "uni", "xml"]), ext=False)
    return t, cls


def _relpath(rng):
    parts = []
    classes = set()
    for _ in range(rng.randint(1, 4)):
        t, c = _text(rng, path=True)
        parts.append(t)
        classes.add(c)
    return "/".join(parts), classes


def _eq_text(a, b):
    return (a or "") == (b or "")


def _unambiguous(hd):
    """the naive local reading exists exactly once in the process' zone (not inside a DST gap or repeated hour)"""
    try:
        t0, t1 = hd.replace(fold=0).timestamp(), hd.replace(fold=1).timestamp()
        return t0 == t1 and _dt.datetime.fromtimestamp(t0) == hd
    except (OverflowError, OSError, ValueError):
        return False


def _offset_class():
    import time

    off = -time.timezone
    return ("neg" if off < 0 else "pos" if off > 0 else "zero") + ("-frac" if off % 3600 else "")


def _cmp(cs, level, field, cls, got, want, ctx, reader, eq=None):
    cs.count("fields_compared")
    cs.count("field:" + field)
    cs.cls(level, field, cls)
    same = eq(got, want) if eq else got == want
    if not same:
        key = "readback-differs"
        sig = {"kind": "readback", "level": level, "field": field, "reader": reader}
        if isinstance(want, str) and isinstance(got, str) and classify.linesep_mangled(got, want):
            key = "line-separator-in-text-indented"
            sig = {"kind": "text-mangled-after-line-separator", "field": field, "mode": level}
        elif field == "size" and want == 0 and got is None:
            key = "size-zero-omitted"
        elif field == "author.name" and want == "-":
            key = "author-dash-sentinel"
        cs.violation(key, sig, {"got": repr(got)[:200], "want": repr(want)[:200], **ctx})


def _contracts_under_repo_tests(cs):
    """I11: the repository's own test suite with icontract postconditions on the real classes (once per run)"""
    import json
    import subprocess

    from .. import env

    out = os.path.join(cs.dir(), "contracts.json")
    e = dict(os.environ)
    e.update({"PYTHONPATH": env.REPO + os.pathsep + env.VERIF, "VF_CONTRACT_OUT": out, "PYTHONDONTWRITEBYTECODE": "1"})
    p = subprocess.run([env.PY, "-m", "pytest", "-q", "-x", "-p", "no:cacheprovider", "-p", "vf.pytest_monitors", os.path.join(env.REPO, "tests")], cwd=env.REPO, env=e, stdout=subprocess.PIPE, stderr=subprocess.STDOUT, timeout=900)
    try:
        res = json.load(open(out))
    except Exception:
        cs.count("contracts_not_evaluated")
        return
    if res["counts"].get("icontract_missing"):
        cs.count("contracts_not_evaluated")  # ./check setup installs icontract into .deps/ (informational monitor)
        return
    for k, v in res["counts"].items():
        cs.count("contract_evaluations:" + k, v)
    cs.evaluated()
    cs.cls("contracts", "repo-tests")
    if res["violations"]:
        cs.violation("contract-broken-under-repo-tests", {"kind": "icontract", "which": sorted({v[0] for v in res["violations"]})}, {"violations": res["violations"][:5], "tail": p.stdout.decode("utf-8", "replace")[-400:]})


def run_case(cs):
    rng = cs.rng
    if cs.seed_str.endswith(":0"):
        _contracts_under_repo_tests(cs)
    k = rng.random()
    if cs.seed_str.endswith((":0", ":1")):
        k = 0.0  # the huge model object of this run
    if k < 0.55:
        _model_manifest(cs)
    elif k < 0.7:
        _model_chain(cs)
    else:
        _command_level(cs)


def _model_manifest(cs):
    rng = cs.rng
    from ascmhl import hashlist_xml_parser as P
    from ascmhl.hashlist import MHLAuthor, MHLCreatorInfo, MHLHashEntry, MHLHashList, MHLMediaHash, MHLProcess, MHLProcessInfo, MHLTool
    from ascmhl.ignore import MHLIgnoreSpec

    d = cs.dir()
    os.makedirs(os.path.join(d, "R", "ascmhl"))
    path = os.path.join(d, "R", "ascmhl", "0001_R_2020-01-01_000000Z.mhl")
    hl = MHLHashList()
    ci = MHLCreatorInfo()
    want_ci = {}
    ci.host_name, c1 = _text(rng)
    ci.tool = MHLTool(_text(rng)[0], _text(rng)[0])
    ci.creation_date = "2021-02-03T04:05:06+01:00"
    nauth = rng.choice([0, 1, 1, 2])
    for i in range(nauth):
        nm = rng.choice([_text(rng)[0], _text(rng)[0], "-", None])
        a = MHLAuthor(nm, rng.choice([None, "x@y.z", "ü@ö.de"]), rng.choice([None, _text(rng)[0]]), rng.choice([None, _text(rng)[0]]))
        ci.authors.append(a)
    ci.location = rng.choice([None, _text(rng)[0], ""])
    ci.comment = rng.choice([None, _text(rng)[0]])
    hl.creator_info = ci
    pi = MHLProcessInfo()
    ptype = rng.choice(["in-place", "transfer", "flatten"])
    pi.process = MHLProcess(ptype)
    pats = [_text(rng)[0] for _ in range(rng.randint(1, 5))]
    pats = [p for i, p in enumerate(pats) if p not in pats[:i]]
    pi.ignore_spec = MHLIgnoreSpec(pats)
    hl.process_info = pi
    want_root = None
    if rng.random() < 0.5:
        rm = MHLMediaHash()
        rm.path = "."
        rm.is_directory = True
        want_root = []
        for f in sorted(rng.sample(world.FORMATS, rng.randint(1, 3))):
            e = MHLHashEntry(f, refhash.digest(f, rng.randbytes(4)))
            e.structure_hash_string = refhash.digest(f, rng.randbytes(4))
            rm.append_hash_entry(e)
            want_root.append((f, e.hash_string, e.structure_hash_string))
        hl.append_hash(rm)
    want_recs = []
    used = set()
    nrec = rng.randint(0, 12)
    if rng.random() < 0.04:
        nrec = rng.randint(250, 500)  # a manifest of well over 32 KiB (the reader works in blocks)
        cs.count("big_model_objects")
    huge = cs.seed_str.endswith((":0", ":1"))
    if huge:
        nrec = 4200 + rng.randint(0, 300)  # more records than any block size a writer might batch by
        cs.count("model_objects_over_4096_records")
    for i in range(nrec):
        p, pcls = _relpath(rng)
        if huge:
            p = "bulk/%05d-%s" % (i, p.replace("/", "_")[:30])
        if p in used or p == ".":
            continue
        used.add(p)
        mh = MHLMediaHash()
        mh.path = p
        isdir = rng.random() < 0.25
        mh.is_directory = isdir
        mh.last_modification_date = _dt.datetime(2020, rng.randint(1, 12), rng.randint(1, 28), rng.randint(0, 23), rng.randint(0, 59), rng.randint(0, 59), rng.randint(0, 999999))
        size = None if isdir else rng.choice([0, 0, 1, 7, 4096, 2**31, 2**40 + 1])
        mh.file_size = size
        ents = []
        for f in sorted(rng.sample(world.FORMATS, rng.randint(1, 6))):
            hd = _dt.datetime(2021, rng.randint(1, 12), rng.randint(1, 28), rng.randint(0, 23), rng.randint(0, 59), rng.randint(0, 59), rng.choice([0, 1, 999999, rng.randint(0, 999999)]))
            e = MHLHashEntry(f, refhash.digest(f, rng.randbytes(5)), None if isdir else rng.choice(ACTIONS), hd)
            if isdir:
                e.structure_hash_string = refhash.digest(f, rng.randbytes(5))
            mh.append_hash_entry(e)
            ents.append((f, e.hash_string, e.action, hd, e.structure_hash_string))
        prev = None
        if rng.random() < 0.2:
            prev, _ = _relpath(rng)
            if rng.random() < 0.12:
                prev = p  # a file moved between two nested histories keeps its relative name: previous path == path
                cs.count("previous_path_equal_to_path")
            elif prev in used:
                prev = None
            else:
                used.add(prev)
        mh.previous_path = prev
        hl.append_hash(mh)
        want_recs.append({"path": p, "cls": "+".join(sorted(pcls)), "dir": isdir, "size": size, "ents": ents, "prev": prev, "lastmod": mh.last_modification_date})
    # references to real files
    want_refs = []
    for i in range(rng.choice([0, 0, 1, 2, 3])):
        sub, _ = _relpath(rng)
        cdir = os.path.join(d, "R", sub, "ascmhl")
        if os.path.exists(cdir):
            continue
        os.makedirs(cdir)
        cname = "0001_%s_2020-01-01_000000Z.mhl" % world.gen_name(rng, rng.choice(["plain", "uni", "space"]), ext=False)
        data = rng.randbytes(20)
        with open(os.path.join(cdir, cname), "wb") as f:
            f.write(data)
        ref = MHLHashList()
        ref.file_path = os.path.join(cdir, cname)
        hl.referenced_hash_lists.append(ref)
        want_refs.append((sub + "/ascmhl/" + cname, refhash.digest("c4", data)))
    ctx = {"file": "manifest", "case": cs.seed_str}
    try:
        P.write_hash_list(hl, path)
    except Exception as e:
        cs.evaluated()
        cs.violation("writer-exception", {"kind": "writer-exception", "exc": type(e).__name__, "what": "manifest"}, {"error": str(e)[:200]})
        return
    cs.count("objects_roundtripped")
    cs.evaluated()
    data = open(path, "rb").read()
    # ---------------- reader 1: the tool's own
    try:
        back = P.parse(path)
    except Exception as e:
        cs.violation("own-reader-exception", {"kind": "reader-exception", "exc": type(e).__name__, "what": "manifest"}, {"error": str(e)[:200]})
        back = None
    # ---------------- reader 2: independent
    try:
        view = xmlread.read_manifest_bytes(data)
    except Exception as e:
        cs.violation("written-file-not-wellformed", {"kind": "not-wellformed", "what": "manifest"}, {"error": str(e)[:200]})
        return
    # creator info
    vci = view["creatorinfo"]
    for reader, obj in (("own", back.creator_info if back else None), ("indep", vci)):
        if obj is None:
            continue
        g = (lambda k: getattr(obj, k)) if reader == "own" else None
        _cmp(cs, "model", "hostname", c1, obj.host_name if reader == "own" else obj["hostname"], ci.host_name, ctx, reader, _eq_text)
        _cmp(cs, "model", "tool.name", "text", obj.tool.name if reader == "own" else obj["tool"]["name"], ci.tool.name, ctx, reader, _eq_text)
        _cmp(cs, "model", "tool.version", "text", obj.tool.version if reader == "own" else obj["tool"]["version"], ci.tool.version, ctx, reader, _eq_text)
        _cmp(cs, "model", "creationdate", "text", obj.creation_date if reader == "own" else obj["creationdate"], ci.creation_date, ctx, reader)
        _cmp(cs, "model", "location", "text", obj.location if reader == "own" else obj["location"], ci.location, ctx, reader, _eq_text)
        _cmp(cs, "model", "comment", "text", obj.comment if reader == "own" else obj["comment"], ci.comment, ctx, reader, _eq_text)
        auth = obj.authors if reader == "own" else obj["authors"]
        _cmp(cs, "model", "authors.count", "n", len(auth), len(ci.authors), ctx, reader)
        for a, w in zip(auth, ci.authors):
            ga = (lambda k: getattr(a, k)) if reader == "own" else (lambda k: a[k])
            _cmp(cs, "model", "author.name", "dash" if w.name == "-" else "text", ga("name"), w.name, ctx, reader, _eq_text)
            _cmp(cs, "model", "author.email", "text", ga("email"), w.email, ctx, reader, _eq_text)
            _cmp(cs, "model", "author.phone", "text", ga("phone"), w.phone, ctx, reader, _eq_text)
            _cmp(cs, "model", "author.role", "text", ga("role"), w.role, ctx, reader, _eq_text)
    # process info
    if back:
        _cmp(cs, "model", "process", ptype, getattr(back.process_info.process, "process_type", back.process_info.process), ptype, ctx, "own")
        _cmp(cs, "model", "patterns", "n%d" % len(pats), back.process_info.ignore_spec.get_pattern_list(), pats, ctx, "own")
        rb = back.process_info.root_media_hash
        got_root = None if rb is None or not rb.hash_entries else [(e.hash_format, e.hash_string, e.structure_hash_string) for e in rb.hash_entries]
        _cmp(cs, "model", "roothash", "present" if want_root else "absent", got_root, want_root, ctx, "own")
        _cmp(cs, "model", "references", "n%d" % len(want_refs), [(r.path, r.reference_hash) for r in back.hash_list_references], want_refs, ctx, "own")
    _cmp(cs, "model", "process", ptype, view["processinfo"]["process"], ptype, ctx, "indep")
    _cmp(cs, "model", "patterns", "n%d" % len(pats), view["processinfo"]["ignore"], pats, ctx, "indep")
    vr = view["processinfo"]["roothash"]
    got_root = None if vr is None else [(c[0], c[1], s[1]) for c, s in zip(vr["content"], vr["structure"])]
    _cmp(cs, "model", "roothash", "present" if want_root else "absent", got_root, want_root, ctx, "indep")
    _cmp(cs, "model", "references", "n%d" % len(want_refs), [(r["path"], r["c4"]) for r in view["references"]], want_refs, ctx, "indep")
    # records
    if back:
        _cmp(cs, "model", "records.count", "n", len(back.media_hashes), len(want_recs), ctx, "own")
        for mh, w in zip(back.media_hashes, want_recs):
            c2 = {"path": w["path"], **ctx}
            _cmp(cs, "model", "path", w["cls"], mh.path, w["path"], c2, "own")
            _cmp(cs, "model", "is_directory", str(w["dir"]), mh.is_directory, w["dir"], c2, "own")
            _cmp(cs, "model", "size", "zero" if w["size"] == 0 else "none" if w["size"] is None else "pos", mh.file_size, w["size"], c2, "own")
            _cmp(cs, "model", "previousPath", "set" if w["prev"] else "none", mh.previous_path, w["prev"], c2, "own")
            got = [(e.hash_format, e.hash_string, e.action, e.structure_hash_string) for e in mh.hash_entries]
            _cmp(cs, "model", "entries", "dir" if w["dir"] else "file", got, [(f, dgt, a, s) for f, dgt, a, hd, s in w["ents"]], c2, "own")
            for e, (f, dgt, a, hd, s) in zip(mh.hash_entries, w["ents"]):
                gd = e.hash_date.replace(tzinfo=None) if e.hash_date is not None else None
                _cmp(cs, "model", "hashdate", "us0" if hd.microsecond == 0 else "us", gd, hd, c2, "own")
                if e.hash_date is not None and e.hash_date.tzinfo is not None and _unambiguous(hd):
                    # the text carries an offset: what is read back must denote the instant that was written
                    _cmp(cs, "model", "hashdate.instant", _offset_class(), e.hash_date.timestamp(), hd.timestamp(), c2, "own")
            # index invariant (I11): record is found under its path and its previous path
            cs.count("index_invariant_checked")
            if back.media_hashes_path_map.get(mh.path) is not mh or (mh.previous_path and back.media_hashes_path_map.get(mh.previous_path) is not mh):
                cs.violation("lookup-index-broken", {"kind": "index-invariant"}, c2)
    _cmp(cs, "model", "records.count", "n", len(view["hashes"]), len(want_recs), ctx, "indep")
    for rec, w in zip(view["hashes"], want_recs):
        c2 = {"path": w["path"], **ctx}
        _cmp(cs, "model", "path", w["cls"], rec["path"], w["path"], c2, "indep")
        _cmp(cs, "model", "is_directory", str(w["dir"]), rec["kind"] == "dir", w["dir"], c2, "indep")
        _cmp(cs, "model", "size", "zero" if w["size"] == 0 else "none" if w["size"] is None else "pos", None if rec["size"] is None else int(rec["size"]), w["size"], c2, "indep")
        _cmp(cs, "model", "previousPath", "set" if w["prev"] else "none", rec["previousPath"], w["prev"], c2, "indep")
        if w["dir"]:
            got = [(c[0], c[1], c[2], s[1]) for c, s in zip(rec["content"], rec["structure"])]
        else:
            got = [(e[0], e[1], e[2], None) for e in rec["entries"]]
        _cmp(cs, "model", "entries", "dir" if w["dir"] else "file", got, [(f, dgt, a, s) for f, dgt, a, hd, s in w["ents"]], c2, "indep")
        dates = [e[3] for e in (rec["content"] if w["dir"] else rec["entries"])]
        for ds, (f, dgt, a, hd, s) in zip(dates, w["ents"]):
            try:
                gd = _dt.datetime.fromisoformat(ds).replace(tzinfo=None)
            except Exception:
                gd = ds
            _cmp(cs, "model", "hashdate", "us0" if hd.microsecond == 0 else "us", gd, hd, c2, "indep")
            try:
                aware = _dt.datetime.fromisoformat(ds)
            except Exception:
                aware = None
            if aware is not None and aware.tzinfo is not None and _unambiguous(hd):
                _cmp(cs, "model", "hashdate.instant", _offset_class(), aware.timestamp(), hd.timestamp(), c2, "indep")
        try:
            lm = _dt.datetime.fromisoformat(rec["lastmod"]).replace(tzinfo=None)
        except Exception:
            lm = rec["lastmod"]
        _cmp(cs, "model", "lastmodificationdate", "sec", lm, w["lastmod"].replace(microsecond=0), c2, "indep")
    cs.sample({"level": "model", "records": [w["path"] for w in want_recs][:5], "patterns": pats, "refs": len(want_refs)})


def _model_chain(cs):
    rng = cs.rng
    from ascmhl import chain_xml_parser as CP
    from ascmhl.chain import MHLChain, MHLChainGeneration
    from ascmhl.hashlist import MHLHashList

    d = cs.dir()
    asc = os.path.join(d, "ascmhl")
    os.makedirs(asc)
    cpath = os.path.join(asc, "ascmhl_chain.xml")
    chain = MHLChain(cpath)
    n = rng.choice([0, 1, 2, 5, 12, 40])
    want = []
    for i in range(1, n + 1):
        nm = "%04d_%s_2020-01-01_000000Z.mhl" % (i, _text(rng, path=True)[0])
        dg = refhash.digest("c4", rng.randbytes(6))
        chain.append_generation(MHLChainGeneration(i, nm, "c4", dg))
        want.append((i, nm, dg))
    nm = "%04d_%s_2020-01-01_000000Z.mhl" % (n + 1, _text(rng, path=True)[0])
    data = rng.randbytes(30)
    with open(os.path.join(asc, nm), "wb") as f:
        f.write(data)
    new = MHLHashList()
    new.file_path = os.path.join(asc, nm)
    new.generation_number = n + 1
    want.append((n + 1, nm, refhash.digest("c4", data)))
    try:
        CP.write_chain(chain, new)
    except Exception as e:
        cs.evaluated()
        cs.violation("writer-exception", {"kind": "writer-exception", "exc": type(e).__name__, "what": "chain"}, {"error": str(e)[:200]})
        return
    cs.evaluated()
    cs.count("objects_roundtripped")
    ctx = {"file": "chain", "case": cs.seed_str}
    try:
        back = CP.parse(cpath)
        got = [(int(g.generation_number), g.ascmhl_filename, g.hash_string) for g in back.generations]
        fm = {g.hash_format for g in back.generations}
        _cmp(cs, "model", "chain.entries", "n%d" % min(n, 41), got, want, ctx, "own")
        _cmp(cs, "model", "chain.format", "c4", fm, {"c4"}, ctx, "own")
    except Exception as e:
        cs.violation("own-reader-exception", {"kind": "reader-exception", "exc": type(e).__name__, "what": "chain"}, {"error": str(e)[:200]})
    try:
        view = xmlread.read_chain(cpath)
        got = [(int(e["sequencenr"]), e["path"], e["c4"]) for e in view["entries"]]
        _cmp(cs, "model", "chain.entries", "n%d" % min(n, 41), got, want, ctx, "indep")
    except Exception as e:
        cs.violation("written-file-not-wellformed", {"kind": "not-wellformed", "what": "chain"}, {"error": str(e)[:200]})
    cs.sample({"level": "model-chain", "generations": n + 1, "names": [w[1] for w in want[:2]]})


def _command_level(cs):
    """manifests / chains produced by real command sequences: the two readers must agree field by field"""
    rng = cs.rng
    from ascmhl import chain_xml_parser as CP
    from ascmhl import hashlist_xml_parser as P

    tree = world.gen_tree(rng, max_files=8, max_dirs=4)
    d = cs.dir()
    root = os.path.join(d, world.root_name(rng))
    world.write_tree(root, tree)
    os.makedirs(root, exist_ok=True)
    subdirs = [k for k, v in tree.items() if v is None]
    for n in rng.sample(subdirs, min(len(subdirs), rng.choice([0, 1, 2]))):
        drive.run("create", [os.path.join(root, n)] + world.fmt_args(world.gen_formats(rng)))
    for g in range(rng.randint(1, 3)):
        opts = []
        if rng.random() < 0.4:
            opts += ["--author_name", _text(rng)[0], "--comment", _text(rng)[0], "--location", _text(rng)[0]]
        if rng.random() < 0.3:
            opts += ["-i", "*.tmp"]
        drive.run("create", [root] + world.fmt_args(world.gen_formats(rng)) + opts)
        t2 = world.read_tree(root)
        world.mutate(rng, root, t2, rng.choice(["flip", "add_file", "touch"]))
    for h in world.find_histories(root):
        asc = hist.asc_dir(root, h)
        for n in sorted(os.listdir(asc)):
            p = os.path.join(asc, n)
            ctx = {"file": p[len(d) :]}
            cs.evaluated()
            if n.endswith(".mhl"):
                cs.count("command_level_manifests")
                own = P.parse(p)
                view = xmlread.read_manifest(p)
                _cmp(cs, "command", "records.count", "n", len(own.media_hashes), len(view["hashes"]), ctx, "own-vs-indep")
                for mh, rec in zip(own.media_hashes, view["hashes"]):
                    pc = "nonascii" if any(ord(c) > 127 for c in rec["path"]) else "ascii"
                    _cmp(cs, "command", "path", pc, mh.path, rec["path"], ctx, "own-vs-indep")
                    _cmp(cs, "command", "size", "zero" if rec["size"] == "0" else "other", mh.file_size, None if rec["size"] is None else int(rec["size"]), ctx, "own-vs-indep")
                    _cmp(cs, "command", "previousPath", "x", mh.previous_path, rec["previousPath"], ctx, "own-vs-indep")
                    if rec["kind"] == "dir":
                        want = [(c[0], c[1], s[1]) for c, s in zip(rec["content"], rec["structure"])]
                        got = [(e.hash_format, e.hash_string, e.structure_hash_string) for e in mh.hash_entries]
                    else:
                        want = [(e[0], e[1], e[2]) for e in rec["entries"]]
                        got = [(e.hash_format, e.hash_string, e.action) for e in mh.hash_entries]
                    _cmp(cs, "command", "entries", rec["kind"], got, want, ctx, "own-vs-indep")
                _cmp(cs, "command", "patterns", "x", own.process_info.ignore_spec.get_pattern_list(), view["processinfo"]["ignore"], ctx, "own-vs-indep")
                _cmp(cs, "command", "references", "x", [(r.path, r.reference_hash) for r in own.hash_list_references], [(r["path"], r["c4"]) for r in view["references"]], ctx, "own-vs-indep")
                vci = view["creatorinfo"]
                _cmp(cs, "command", "comment", "x", own.creator_info.comment, vci["comment"], ctx, "own-vs-indep", _eq_text)
                _cmp(cs, "command", "location", "x", own.creator_info.location, vci["location"], ctx, "own-vs-indep", _eq_text)
                _cmp(cs, "command", "hostname", "x", own.creator_info.host_name, vci["hostname"], ctx, "own-vs-indep", _eq_text)
                _cmp(cs, "command", "authors", "x", [(a.name or "", a.email, a.phone, a.role) for a in own.creator_info.authors], [(a["name"] or "", a["email"], a["phone"], a["role"]) for a in vci["authors"]], ctx, "own-vs-indep")
            elif n == "ascmhl_chain.xml":
                own = CP.parse(p)
                view = xmlread.read_chain(p)
                _cmp(cs, "command", "chain.entries", "x", [(str(g.generation_number), g.ascmhl_filename, g.hash_string) for g in own.generations], [(e["sequencenr"], e["path"], e["c4"]) for e in view["entries"]], ctx, "own-vs-indep")
    cs.sample({"level": "command", "root": os.path.basename(root), "histories": world.find_histories(root)})
