"""C14 — commands touch nothing beyond what they document.

Oracle: a rule on *where* mutations may land, evaluated on (I1) Python audit events of every file-system mutating call and
(I2) a before/after snapshot (type, content hash, size, mode, mtime_ns) of the whole scratch area including the working
directory; thorough tier repeats a sample in real sub-processes under `strace -f -e trace=%file` (I7) to see writes
that bypass Python.  Observed: everything the commands do to the file system, whatever their exit code."""
import os
import re
import shutil
import subprocess

from .. import audit, classify, drive, env, hist, snap, strace, world

TECHNIQUE = 'runtime monitoring: sys.addaudithook event monitor + full snapshot differ around every command, strace syscall log on a sample of real sub-processes'
LEVEL = "exploration"
RULE = (
    "case = history state (none / flat / nested / tampered manifest / missing chain / missing manifest) x command with option "
    "class (verify plain|-sf|-dh|-dh -co|-pl, diff, info, info -sf, hash, xsd-schema-check, flatten, create folder|-sf|-dr|-n|-i, "
    "usage errors) x 10 % trees holding a name XML 1.0 cannot store, prefix-named siblings of nested histories x tree edits beforehand (so that exits 10/11/12/20/21/30/31/32/33/2 occur); class = (command, option "
    "class, history state, exit code)"
)
ASSUMPTIONS = ["atime is not part of the snapshot (reading updates it legitimately)", "mkdir of an ascmhl folder changes the mtime of the history root in that run only (OS effect, exempted; also when a failing first generation removes the folder again)"]
MIN_DECIDING = {"readonly_commands": 200, "create_commands": 100, "flatten_commands": 20, "audit_events_seen": 100}

READONLY = ["verify", "verify-sf", "verify-dh", "verify-dh-co", "verify-pl", "diff", "info", "info-sf", "hash", "xsd", "usage"]


def budget(tier):
    return {"cases": 6000, "seconds": 55} if tier == "quick" else {"cases": 200000, "seconds": 600}


def _inside_asc(path, top):
    """path is <something>/ascmhl or directly inside one, below top"""
    p = os.path.abspath(path)
    if not p.startswith(top.rstrip("/") + "/"):
        return False
    return os.path.basename(p) == "ascmhl" or os.path.basename(os.path.dirname(p)) == "ascmhl"


def run_case(cs):
    rng = cs.rng
    d = cs.dir()
    area = os.path.join(d, "area")
    root = os.path.join(area, world.root_name(rng, "root"))
    if rng.random() < 0.04:
        # the history folder's own name cannot be stored in XML: the manifest can be written, its chain entry cannot
        root = os.path.join(area, "root" + rng.choice(world.UNSTORABLE) + "x")
        cs.count("root_names_not_storable_in_xml")
    cwd = os.path.join(area, "cwd")
    dest = os.path.join(area, "dest")
    os.makedirs(cwd)
    tree = world.gen_tree(rng, max_files=rng.choice([2, 6]), max_dirs=rng.choice([0, 2, 4]), min_files=1)
    world.write_tree(root, tree)
    state = rng.choice(["none", "flat", "flat", "nested", "nested", "tampered", "nochain", "nomanifest"])
    subdirs = [k for k, v in tree.items() if v is None]
    prefix_siblings = []
    unstorable_when = rng.choice(["before", "later"]) if rng.random() < 0.1 else None
    if unstorable_when == "before" and world.add_unstorable_name(rng, root, tree):
        cs.count("trees_with_name_not_storable_in_xml")
    if state != "none":
        if state == "nested" and subdirs:
            for n in rng.sample(subdirs, min(len(subdirs), 2)):
                drive.run("create", [os.path.join(root, n), "-h", "md5"])
                if rng.random() < 0.5:
                    # siblings without own history whose names merely start with the nested folder's name
                    for suffix, isdir in ((".ale", False), ("_proxy", True), (" 2", True)):
                        sp = os.path.join(root, n + suffix)
                        if rng.random() < 0.6 and not os.path.lexists(sp):
                            if isdir:
                                os.makedirs(sp)
                                sp = os.path.join(sp, "clip.mov")
                            with open(sp, "wb") as f:
                                f.write(b"sib" + rng.randbytes(3))
                            prefix_siblings.append(os.path.relpath(sp, root))
        for g in range(rng.randint(1, 3)):
            drive.run("create", [root] + world.fmt_args(world.gen_formats(rng)))
        hs = world.find_histories(root)
        if state == "tampered" and hs:
            h = rng.choice(hs)
            ms = world.manifests(root, h)
            if ms:
                with open(os.path.join(hist.asc_dir(root, h), rng.choice(ms)), "ab") as f:
                    f.write(b"\n")
        elif state == "nochain" and hs:
            cp = os.path.join(hist.asc_dir(root, rng.choice(hs)), "ascmhl_chain.xml")
            if os.path.exists(cp):
                os.remove(cp)
        elif state == "nomanifest" and hs:
            h = rng.choice(hs)
            ms = world.manifests(root, h)
            if ms:
                os.remove(os.path.join(hist.asc_dir(root, h), rng.choice(ms)))
    if state != "none" and rng.random() < 0.3:
        # what an interrupted run or a file manager leaves behind inside ascmhl folders; nobody but create's own
        # temporary chain name may ever be touched
        for h in world.find_histories(root):
            ad = hist.asc_dir(root, h)
            for junk in rng.sample(["0009_x_2020-01-01_000000Z.mhl.tmp", "ascmhl_chain.xml.tmp", "._ascmhl_chain.xml", ".DS_Store", "notes.txt"], rng.randint(1, 3)):
                with open(os.path.join(ad, junk), "wb") as f:
                    f.write(b"<partial" + rng.randbytes(5))
        cs.count("states_with_leftovers_in_ascmhl")
    packing = None
    if state in ("flat", "nested") and rng.random() < 0.5:
        r = drive.run("flatten", [root, dest])
        if r.exit == 0:
            for dp, dn, fn in os.walk(dest):
                for f in fn:
                    if f.endswith(".mhl"):
                        packing = os.path.join(dp, f)
    if unstorable_when == "later" and world.add_unstorable_name(rng, root, tree):
        cs.count("trees_with_name_not_storable_in_xml")
    # edits so that failing exit codes occur
    t2 = world.read_tree(root)
    for _ in range(rng.choice([0, 0, 1, 2])):
        world.mutate(rng, root, t2, rng.choice(["flip", "delete_file", "add_file", "touch", "delete_empty_dir"]))
    files = sorted(k for k, v in world.read_tree(root).items() if v is not None)
    # a few fixed mtimes so that "mtime changed" is meaningful even within the same clock tick
    world.set_mtimes(area, rng)
    for step in range(rng.randint(2, 5)):
        files = sorted(k for k, v in world.read_tree(root).items() if v is not None)
        kind = rng.choice(READONLY + ["create", "create", "create-sf", "create-dr", "flatten"])
        run_cwd = rng.choice([None, cwd])
        argv, cmd, oc = None, None, kind
        if kind == "verify":
            cmd, argv = "verify", [root] + (["-v"] if rng.random() < 0.3 else [])
        elif kind == "verify-sf":
            cmd, argv = "verify", [root, "-sf", rng.choice(files) if files and rng.random() < 0.8 else "nonexistent.bin"]
        elif kind == "verify-dh":
            cmd, argv = "verify", [root, "-dh"] + (["-h", rng.choice(world.FORMATS)] if rng.random() < 0.3 else [])
        elif kind == "verify-dh-co":
            cmd, argv = "verify", [root, "-dh", "-co"] + (["-ro"] if rng.random() < 0.3 else []) + ["-h", rng.choice(world.FORMATS)]
        elif kind == "verify-pl":
            if not packing:
                continue
            cmd, argv = "verify", [root, "-pl", packing]
        elif kind == "diff":
            cmd, argv = "diff", [root]
        elif kind == "info":
            cmd, argv = "info", [root] + (["-v"] if rng.random() < 0.3 else [])
        elif kind == "info-sf":
            if not files:
                continue
            cmd, argv = "info", ["-sf", os.path.join(root, rng.choice(files))] + ([root] if rng.random() < 0.5 else [])
        elif kind == "hash":
            if not files:
                continue
            cmd, argv = "hash", [os.path.join(root, rng.choice(files)), "-h", rng.choice(world.FORMATS)]
        elif kind == "xsd":
            hs = world.find_histories(root)
            if not hs:
                continue
            h = rng.choice(hs)
            names = os.listdir(hist.asc_dir(root, h))
            if not names:
                continue
            n = rng.choice(names)
            cmd = "xsd-schema-check"
            if n.endswith(".xml"):
                argv = [os.path.join(hist.asc_dir(root, h), n), "-df", "-xsd", os.path.join(env.REPO, "xsd", "ASCMHLDirectory__combined.xsd")]
            else:
                argv = [os.path.join(hist.asc_dir(root, h), n), "-xsd", os.path.join(env.REPO, "xsd", "ASCMHL.xsd")]
        elif kind == "usage":
            cmd, argv = rng.choice([("verify", [root, "--nope"]), ("create", [os.path.join(area, "missing")]), ("diff", []), ("create", [root, "-h", "crc32"]), ("flatten", [root])])
        elif kind == "create":
            cmd = "create"
            argv = [root] + world.fmt_args(world.gen_formats(rng))
            if rng.random() < 0.25:
                argv.append("-n")
                oc += "-n"
            if rng.random() < 0.25:
                argv += ["-i", "*.tmp"]
                oc += "-i"
        elif kind == "create-sf":
            if not files:
                continue
            cmd = "create"
            argv = [root] + world.fmt_args(world.gen_formats(rng))
            if rng.random() < 0.2:
                # a selection that holds nothing to record: an empty folder, or one with ignored files only
                ed = os.path.join(root, "empty-sel-%d" % step)
                os.makedirs(ed, exist_ok=True)
                if rng.random() < 0.5:
                    with open(os.path.join(ed, ".DS_Store"), "wb") as f:
                        f.write(b"x")
                world.set_mtimes(area, rng)
                argv += ["-sf", ed]
                oc += "-emptysel"
            else:
                sib = [f for f in prefix_siblings if f in files]
                if sib and rng.random() < 0.5:
                    argv += ["-sf", os.path.join(root, rng.choice(sib))]
                    oc += "-prefixsibling"
                else:
                    for f in rng.sample(files, min(len(files), 2)):
                        argv += ["-sf", os.path.join(root, f)]
        elif kind == "create-dr":
            if not files:
                continue
            f = rng.choice(files)
            os.rename(os.path.join(root, f), os.path.join(root, f + ".moved"))
            cmd, argv = "create", [root, "-dr"] + world.fmt_args(world.gen_formats(rng))
        elif kind == "flatten":
            cmd, argv = "flatten", [root, dest] + (["-v"] if rng.random() < 0.3 else [])
            if rng.random() < 0.4:
                # relative destination: it is relative to the working directory, wherever the source is
                run_cwd = cwd
                argv[1] = rng.choice(["dest-rel", "./dest-rel", "../dest"])
                oc += "-reldest"
        if cmd in ("verify", "diff", "create", "flatten") and kind != "usage" and "-v" not in argv and rng.random() < 0.3:
            argv = argv + ["-v"]
            oc += "-v"
        before = snap.snap(area)
        hists_before = set(world.find_histories(root))
        with audit.record() as ev:
            r = drive.run(cmd, argv, cwd=run_cwd)
        after = snap.snap(area)
        df = snap.diff(before, after)
        muts = audit.fs_mutations(ev.events)
        cs.evaluated()
        cs.count("audit_events_seen", len(muts))
        cs.cls(cmd, oc, state, r.exit)
        cs.count("exit:%s" % r.exit)
        ctx = {"cmd": cmd, "argv": [a.replace(d, "") for a in r.argv], "state": state, "exit": r.exit, "cwd": bool(run_cwd)}
        if r.internal:
            cs.count("internal_error_seen:" + classify.internal_key(r))
        if kind in READONLY:
            cs.count("readonly_commands")
            if muts:
                cs.violation("readonly-command-mutates", {"kind": "audit-mutation", "cmd": oc, "event": muts[0][0]}, {**ctx, "events": [list(map(str, m[:3])) for m in muts[:4]]})
            if not snap.empty(df):
                cs.violation("readonly-command-changes-tree", {"kind": "snapshot-diff", "cmd": oc, "added": bool(df["added"]), "removed": bool(df["removed"]), "changed": sorted({f for v in df["changed"].values() for f in v})}, {**ctx, "diff": _short(df)})
        elif kind == "flatten":
            cs.count("flatten_commands")
            real_dest = os.path.normpath(os.path.join(run_cwd or os.getcwd(), argv[1]))
            bad_ev = [m for m in muts if not all(os.path.normpath(os.path.join(run_cwd or os.getcwd(), p)).startswith(real_dest) for p in audit.target_paths(m))]
            if bad_ev:
                cs.violation("flatten-writes-outside-destination", {"kind": "audit-mutation", "cmd": "flatten", "event": bad_ev[0][0]}, {**ctx, "events": [list(map(str, m[:3])) for m in bad_ev[:4]]})
            drel = os.path.relpath(real_dest, area)
            ind = lambda p: p == drel or p.startswith(drel + "/")
            parent_of_new_dest = os.path.dirname(drel) or "."
            outside = {"added": [p for p in df["added"] if not ind(p)], "removed": [p for p in df["removed"] if not ind(p)], "changed": {p: v for p, v in df["changed"].items() if not ind(p) and not (p == parent_of_new_dest and v == ["mtime"] and drel in df["added"])}}
            if not snap.empty(outside):
                cs.violation("flatten-changes-source", {"kind": "snapshot-diff", "cmd": "flatten", "changed": sorted({f for v in outside["changed"].values() for f in v})}, {**ctx, "diff": _short(outside)})
        else:
            cs.count("create_commands")
            bad_ev = [m for m in muts if not all(_inside_asc(p, area) for p in audit.target_paths(m))]
            if bad_ev:
                cs.violation("create-writes-outside-ascmhl", {"kind": "audit-mutation", "cmd": oc, "event": bad_ev[0][0]}, {**ctx, "events": [list(map(str, m[:3])) for m in bad_ev[:4]]})
            problems = []
            new_asc = {p for p in df["added"] if os.path.basename(p) == "ascmhl"}
            for p in df["added"]:
                base = os.path.basename(p)
                par = os.path.basename(os.path.dirname(p))
                if base == "ascmhl" and after[p][0] == "d":
                    inside = [q for q in df["added"] if q.startswith(p + "/")]
                    if not any(q.endswith(".mhl") for q in inside) or not any(q.endswith("/ascmhl_chain.xml") for q in inside):
                        problems.append(("ascmhl-folder-without-generation", p))
                    continue
                if par == "ascmhl" and (re.match(r"^\d{4,}_.*_\d{4}-\d\d-\d\d_\d{6}Z\.mhl$", base, re.S) or base == "ascmhl_chain.xml"):
                    continue
                problems.append(("added", p))
            for p in df["removed"]:
                if os.path.basename(p) == "ascmhl_chain.xml.tmp" and os.path.basename(os.path.dirname(p)) == "ascmhl":
                    continue  # create's own temporary name: a stale one is overwritten and renamed into place
                problems.append(("removed", p))
            for p, fields in df["changed"].items():
                base = os.path.basename(p)
                par = os.path.basename(os.path.dirname(p))
                if base == "ascmhl_chain.xml" and par == "ascmhl":
                    continue
                if base == "ascmhl" and fields == ["mtime"]:
                    continue
                if fields == ["mtime"] and ((p + "/ascmhl") in new_asc or (p == "." and "ascmhl" in new_asc)) :
                    continue
                if fields == ["mtime"] and r.exit not in (0, 10, 11) and any(m[0] == "os.mkdir" and os.path.normpath(os.path.join(run_cwd or os.getcwd(), str(m[1]))) == os.path.join(area, p, "ascmhl") for m in muts):
                    # a failing run that made the ascmhl folder and took it away again: same OS effect of the same mkdir
                    cs.count("failed_first_generation_cleaned_up")
                    continue
                problems.append(("changed:" + "+".join(fields), p))
            # histories in scope: folder mode = every history whose root is not ignored; -sf = those on the path from
            # the named files up to the root.  Anything written into another history's ascmhl folder is out of scope.
            if kind in ("create", "create-sf") and r.exit in (0, 10, 11):
                from ..oracle import ignoreref

                hs_now = world.find_histories(root)
                if kind == "create-sf":
                    sel = [a for i2, a in enumerate(argv) if i2 > 0 and argv[i2 - 1] == "-sf"]
                    scope = set()
                    for sp in sel:
                        relp = os.path.relpath(os.path.normpath(sp), root)
                        hh = world.owner(relp, hs_now)
                        while True:
                            scope.add(hh)
                            if hh == ".":
                                break
                            hh = max([x for x in hs_now if x == "." or hh.startswith(x + "/")], key=lambda x: (x != ".", len(x)))
                else:
                    pats = (hist.latest_patterns(root, ".") if "." in hists_before else None) or list(ignoreref.DEFAULTS)
                    pats = pats + (["*.tmp"] if "-i" in argv else [])
                    scope = {x for x in hs_now if x == "." or ignoreref.match(pats, x) is False}
                for pth in list(df["added"]) + list(df["changed"]):
                    parts = pth.split("/")
                    if "ascmhl" in parts and parts[0] == os.path.basename(root):
                        hrel = "/".join(parts[1 : parts.index("ascmhl")]) or "."
                        if hrel not in scope:
                            problems.append(("out-of-scope-history", pth))
            if problems:
                kinds = sorted({k for k, _ in problems})
                media = any(os.path.basename(os.path.dirname(p)) != "ascmhl" and os.path.basename(p) != "ascmhl" for _, p in problems)
                cs.violation("create-changes-more-than-documented", {"kind": "snapshot-diff", "cmd": oc, "what": kinds, "media_touched": media}, {**ctx, "problems": problems[:6]})
    # ---- I7: the same rule on the syscall level, in a real sub-process (sees writes that bypass Python)
    if strace.available() and cs.rng.random() < (0.03 if cs.tier == "quick" else 0.06):
        _strace_audit(cs, d, area, root, dest, state)
    if state == "nested" and rng.random() < 0.3:
        _race(cs, rng, root)
    if rng.random() < 0.12:
        _interrupt(cs, rng, d, area, root)
    if rng.random() < 0.08:
        _linked_history(cs, rng, area, root)
    cs.sample({"state": state, "tree": sorted(tree)[:6]})


def _strace_audit(cs, d, area, root, dest, state):
    rng = cs.rng
    files = sorted(k for k, v in world.read_tree(root).items() if v is not None)
    plans = [("bare:verify", [root], "ro"), ("bare:diff", [root], "ro"), ("bare:info", [root], "ro"), ("bare:verify", [root, "-dh"], "ro"), ("bare:create", [root, "-h", "md5"], "create"), ("bare:flatten", [root, dest], "flatten")]
    if files:
        plans.append(("bare:hash", [os.path.join(root, files[0]), "-h", "c4"], "ro"))
    tool, argv, kind = rng.choice(plans)
    before = snap.snap(area)
    rc, muts, nlines, out, err = strace.trace_mutations(tool, argv, os.path.join(d, "strace.log"))
    after = snap.snap(area)
    cs.evaluated()
    cs.count("strace_commands")
    cs.count("strace_lines_parsed", nlines)
    cs.cls("strace", tool, kind, rc)
    relevant = []
    for call, paths, raw in muts:
        ps = [p for p in paths if p.startswith(d)]
        if ps:
            relevant.append((call, ps, raw))
    cs.count("strace_mutating_syscalls_in_scratch", len(relevant))
    ctx = {"tool": tool, "argv": [a.replace(d, "") for a in argv], "exit": rc, "state": state}
    if kind == "ro":
        if relevant:
            cs.violation("readonly-command-mutates", {"kind": "syscall-mutation", "cmd": tool, "event": relevant[0][0]}, {**ctx, "syscalls": [r[2] for r in relevant[:3]]})
        if not snap.empty(snap.diff(before, after)):
            cs.violation("readonly-command-changes-tree", {"kind": "snapshot-diff", "cmd": tool, "via": "subprocess"}, ctx)
    elif kind == "create":
        bad = [r for r in relevant if not all(_inside_asc(p, area) for p in r[1])]
        if bad:
            cs.violation("create-writes-outside-ascmhl", {"kind": "syscall-mutation", "cmd": tool, "event": bad[0][0]}, {**ctx, "syscalls": [r[2] for r in bad[:3]]})
    else:
        bad = [r for r in relevant if not all(os.path.abspath(p).startswith(dest) for p in r[1])]
        if bad:
            cs.violation("flatten-writes-outside-destination", {"kind": "syscall-mutation", "cmd": tool, "event": bad[0][0]}, {**ctx, "syscalls": [r[2] for r in bad[:3]]})


def _linked_history(cs, rng, area, root):
    """a folder outside of the root that has a history of its own is reachable through a symbolic link below the root: a
    run on the root (whole folder, or -sf with a path through the link) has no business in that history"""
    arch = os.path.join(area, "archive-%d" % rng.randint(0, 9))
    if os.path.lexists(arch) or os.path.lexists(os.path.join(root, "ref")) or not os.path.isdir(root):
        return
    os.makedirs(arch)
    with open(os.path.join(arch, "clip.mov"), "wb") as f:
        f.write(b"archived" + rng.randbytes(3))
    if drive.run("create", [arch, "-h", "md5"]).exit != 0:
        return
    os.symlink(arch if rng.random() < 0.5 else os.path.relpath(arch, root), os.path.join(root, "ref"))
    world.set_mtimes(area, rng)
    for argv, oc in (([root, "-h", "md5", "-sf", os.path.join(root, "ref", "clip.mov")], "sf-file-through-link"), ([root, "-h", "md5", "-sf", os.path.join(root, "ref")], "sf-link"), ([root, "-h", "md5"], "folder")):
        if rng.random() < 0.5:
            continue
        before = snap.snap(area)
        with audit.record() as ev:
            r = drive.run("create", argv)
        after = snap.snap(area)
        cs.evaluated()
        cs.count("create_commands")
        cs.count("create_with_linked_outside_history")
        cs.cls("create", "linked-history-" + oc, "any", r.exit)
        df = snap.diff(before, after)
        arel = os.path.relpath(arch, area)
        touched = [p for p in list(df["added"]) + list(df["removed"]) + list(df["changed"]) if p == arel or p.startswith(arel + "/")]
        if touched:
            cs.violation(
                "create-changes-more-than-documented",
                {"kind": "snapshot-diff", "cmd": "create-" + oc, "what": ["history-outside-the-root-written"], "media_touched": False},
                {"exit": r.exit, "touched": sorted(touched)[:5]},
            )
    os.remove(os.path.join(root, "ref"))


def _interrupt(cs, rng, d, area, root):
    """Ctrl-C while create writes a manifest or a chain file: the run ends with an error like any other failing run, so no
    temporary file and no ascmhl folder without chain file may stay behind"""
    from .. import crash

    argv = [root] + world.fmt_args(world.gen_formats(rng)[:2])
    ref = os.path.join(d, "interrupt-ref")
    shutil.rmtree(ref, ignore_errors=True)
    subprocess.run(["cp", "-a", area, ref])
    ref_root = os.path.join(ref, os.path.relpath(root, area))
    log = os.path.join(d, "interrupt-events.log")

    def run_at(r0):
        def f():
            r = drive.run("create", [r0] + argv[1:])
            return 1000 if r.internal else r.exit

        return f

    status, E = crash.run_forked(run_at(ref_root), 0, None, log)
    shutil.rmtree(ref, ignore_errors=True)
    cand = [e[0] for e in E if e[1] in ("write", "flush", "close", "rename")]
    if not (isinstance(status, tuple) and status[0] == "done") or not cand:
        return
    k = rng.choice(cand)
    before = snap.snap(area)
    imode = rng.choice(["sigint", "sigint_after"])  # before the operation, or while it runs (raised once it is done)
    status, ev = crash.run_forked(run_at(root), k, imode, log)
    after = snap.snap(area)
    if status != "crashed":
        return
    cs.evaluated()
    cs.count("create_commands")
    cs.count("create_interrupted_by_ctrl_c")
    kind = [e[1] for e in E if e[0] == k][0]
    cs.cls("create", "interrupt-" + kind, "any", imode)
    df = snap.diff(before, after)
    left = [p for p in df["added"] if p.endswith(".tmp")]
    chainless = [p for p in df["added"] if os.path.basename(p) == "ascmhl" and not any(q == p + "/ascmhl_chain.xml" for q in df["added"])]
    if left or chainless:
        cs.violation(
            "create-changes-more-than-documented",
            {"kind": "snapshot-diff", "cmd": "create-interrupted", "what": (["temporary-file-left"] if left else []) + (["ascmhl-folder-without-generation"] if chainless else []), "media_touched": False},
            {"event": kind, "left": left[:3], "chainless": chainless[:3]},
        )


def _race(cs, rng, root):
    """a folder that holds a nested history is renamed by somebody else while create is hashing: whatever the run does
    about it, it must not bring the vanished folder back (a name that no longer exists is not its to create)"""
    import ascmhl.hasher as H

    nested = [h for h in world.find_histories(root) if h != "."]
    if not nested:
        return
    n = rng.choice(nested)
    old, new = os.path.join(root, n), os.path.join(root, n + " (moved)")
    state = {"calls": 0, "at": rng.randint(1, 3), "done": False}
    had = H.__dict__.get("open")
    import builtins

    def hooked(path, *a, **kw):
        state["calls"] += 1
        # the files directly in the root folder are hashed last, after everything below the nested folder
        late = os.path.dirname(os.path.abspath(os.fspath(path))) == os.path.abspath(root) or state["at"] == 3
        if not state["done"] and late and state["calls"] >= state["at"] and os.path.isdir(old) and not os.path.lexists(new):
            os.rename(old, new)
            state["done"] = True
        return (had or builtins.open)(path, *a, **kw)

    H.open = hooked
    try:
        r = drive.run("create", [root] + world.fmt_args(world.gen_formats(rng)))
    finally:
        if had is None:
            del H.open
        else:
            H.open = had
    if not state["done"]:
        return
    cs.evaluated()
    cs.count("create_commands")
    cs.count("folder_renamed_while_create_runs")
    cs.cls("create", "race-rename", "nested", r.exit)
    if os.path.lexists(old):
        left = []
        for dp, dn, fn in os.walk(old):
            left += [os.path.relpath(os.path.join(dp, x), root) for x in dn + fn]
        cs.violation(
            "create-changes-more-than-documented",
            {"kind": "snapshot-diff", "cmd": "create-race", "what": ["recreated-vanished-folder"], "media_touched": False},
            {"folder": n, "exit": r.exit, "recreated": sorted(left)[:6]},
        )


def _short(df):
    return {"added": df["added"][:4], "removed": df["removed"][:4], "changed": dict(list(df["changed"].items())[:4])}
