"""C06 — histories are append-only and generations are numbered without gaps.

Oracle: byte snapshots of every ascmhl folder before/after each run (I2), independent chain reader (O3), O1 for the c4 of
the new manifest's bytes, injected clock (I5) for the UTC time in the file name.  Observed: listing + bytes of every
ascmhl folder across every create / create -sf, `info` output and MHLHistory.load_from_path after the sequence."""
import datetime as _dt
import os
import shutil
import re

from .. import classify, clock, drive, hist, world
from ..oracle import refhash, xmlread

TECHNIQUE = 'runtime monitoring: append-only / monotonicity checker over before/after snapshots of every ascmhl folder, injected clock, independent chain reader'
LEVEL = "exploration"
RULE = (
    "case = sequence of 2-14 create / create -sf runs (exit 0/10/11) interleaved with tree edits, flat or nested, frozen clock "
    "(several runs in the same second) or advancing clock, random time zone; orphan manifests (run died before the chain was replaced), equally named nested histories, histories renumbered to 9997.., folder names of 223-227 bytes; class = (nesting, sequence length bucket, exit "
    "codes seen, same-second, zone sign, crossed generation 9->10)"
)
ASSUMPTIONS = ["<= 14 generations per history; file-name time compared with the injected clock (datetime.now(timezone.utc))"]
MIN_DECIDING = {"runs_judged": 100, "chain_prefix_checked": 100, "reload_checked": 20}

ZONES = ["UTC", "Europe/Berlin", "America/New_York", "Asia/Kolkata", "Pacific/Auckland", "Etc/GMT+12", "Pacific/Kiritimati"]
NAME_RE = re.compile(r"^(\d{4,})_(.*)_(\d{4}-\d{2}-\d{2}_\d{6})Z\.mhl$", re.S)


def budget(tier):
    return {"cases": 4000, "seconds": 55} if tier == "quick" else {"cases": 200000, "seconds": 600}


def run_case(cs):
    rng = cs.rng
    tree = world.gen_tree(rng, max_files=rng.choice([1, 3, 6]), max_dirs=rng.choice([0, 1, 3]), min_files=1)
    d = cs.dir()
    rootname = "R" + world.gen_name(rng, rng.choice(["plain", "space", "uni", "xml", "punct", "dotend", "dotunder", "dot"]), ext=False)
    if rng.random() < 0.03:
        # a folder name that just fits into a manifest name (NNNN_<folder>_<18 chars>.mhl <= 255 bytes)
        rootname = rng.choice(["R" + "x" * rng.randint(222, 226), "\u30ea\u30fc\u30eb" * 25 + "ab"[: rng.randint(0, 2)]])
        cs.count("root_names_of_223_to_227_bytes")
    root = os.path.join(d, rootname)
    world.write_tree(root, tree)
    subdirs = [x for x in tree if tree[x] is None]
    nested = rng.sample(subdirs, min(len(subdirs), rng.choice([0, 0, 1, 2])))
    if rng.random() < 0.12:
        # sibling cards with equally named nested folders (ReelA/Clips, ReelB/Clips): their manifests get the same file
        # name whenever they are written at the same generation number in the same second
        twin = rng.choice(["Clips", "A001", "sound files"])
        nested = []
        for par in ("ReelA", "ReelB") + (("ReelC",) if rng.random() < 0.3 else ()):
            os.makedirs(os.path.join(root, par, twin))
            with open(os.path.join(root, par, twin, "c.bin"), "wb") as f:
                f.write(rng.randbytes(4))
            tree[par] = None
            tree[par + "/" + twin] = None
            tree[par + "/" + twin + "/c.bin"] = b""
            nested.append(par + "/" + twin)
        cs.count("equally_named_nested_histories")
    zone = rng.choice(ZONES)
    clock.set_zone(zone)
    now = rng.randint(1_000_000_000, 1_900_000_000)
    if rng.random() < 0.15:
        import calendar

        now = calendar.timegm((rng.choice([2021, 2024, 2025, 2027, 2028]), 1, 1, 0, 0, 0)) + rng.randint(-3 * 86400, 3 * 86400)
    same_second = rng.random() < 0.5
    clock.freeze(now)
    long_seq = rng.random() < 0.12
    nruns = rng.randint(9, 14) if long_seq else rng.randint(2, 6)
    steps = []
    exits = set()
    for n in nested:
        r = drive.run("create", [os.path.join(root, n), "-h", rng.choice(world.FORMATS)])
        steps.append(f"seal child {n!r} => {r.exit}")
    base = 1
    if not nested and rng.random() < 0.08 and len(os.fsencode(rootname)) < 200:
        # a long-lived history: the run sequence crosses 9999 -> 10000 (the loader accepts numbers of 4 or more digits)
        r0 = drive.run("create", [root, "-h", "md5"])
        if r0.exit == 0:
            base = 9997 + rng.randint(0, 1)
            hist.renumber_flat_history(root, base - 1)
            cs.count("histories_renumbered_to_9997+")
    for i in range(nruns):
        if i > 0 and rng.random() < 0.08 and "ascmhl_chain.xml" in (hist.listing(root).get(".") or {}):
            # a run that died after its manifest was moved into place and before the chain file was replaced:
            # the manifest exists, the chain does not list it
            cp = os.path.join(root, "ascmhl", "ascmhl_chain.xml")
            with open(cp, "rb") as f:
                old_chain = f.read()
            clock.freeze(now)
            ro = drive.run("create", [root, "-h", "md5"])
            if ro.exit in (0, 10, 11):
                with open(cp, "wb") as f:
                    f.write(old_chain)
                steps.append("orphan manifest (chain rolled back)")
                cs.count("orphan_manifests")
                if not same_second:
                    now += 2
        if not same_second:
            now += rng.choice([1, 1, 59, 3600, 86400])
            clock.freeze(now)
        if i > 0 and rng.random() < 0.5:
            for _ in range(rng.randint(1, 2)):
                m = world.mutate(rng, root, tree, rng.choice(["flip", "append", "delete_file", "add_file", "add_file", "touch"]))
                if m:
                    steps.append(f"edit {m['kind']} {m['path']!r}")
        if i > 0 and rng.random() < 0.15:
            # what file managers leave behind inside ascmhl folders: AppleDouble twins of manifests, .DS_Store, stray notes
            for h in world.find_histories(root):
                ad = hist.asc_dir(root, h)
                ms = world.manifests(root, h)
                if ms and rng.random() < 0.7:
                    junk = rng.choice(["._" + ms[-1], ".DS_Store", "notes.txt", "._ascmhl_chain.xml", "Thumbs.db", "ascmhl_chain.xml.tmp", "0099_stale_2020-01-01_000000Z.mhl.tmp", "backup-copy"])
                    if junk == "backup-copy":
                        # somebody keeps a copy of a manifest in a sub folder of the ascmhl folder
                        bd = os.path.join(ad, rng.choice(["backup", "old", "copy of manifests"]))
                        if not os.path.exists(bd):
                            os.makedirs(bd)
                            shutil.copy2(os.path.join(ad, rng.choice(ms)), bd)
                            steps.append(f"manifest copied into a sub folder of ascmhl in {h!r}")
                            cs.count("manifest_copies_in_sub_folder_of_ascmhl")
                        continue
                    if not os.path.exists(os.path.join(ad, junk)) and len(os.fsencode(junk)) <= 255:
                        with open(os.path.join(ad, junk), "wb") as f:
                            f.write(b"\x00\x05\x16\x07 junk" if not junk.endswith(".tmp") else b"<stale>\n" + b"  <left over by an interrupted run/>\n" * 600)
                        steps.append(f"junk {junk!r} in {h!r}")
                        cs.count("junk_files_in_ascmhl")
        if i > 0 and rng.random() < 0.1 and len(os.fsencode(os.path.basename(root))) < 200:
            # the folder is given another name between two runs (card renamed, "_backup" copy): new manifests carry
            # the name the folder has now
            newroot = root + rng.choice(["_backup", " copy", "-2", ".old"])
            if not os.path.exists(newroot):
                os.rename(root, newroot)
                root = newroot
                steps.append(f"history folder renamed to {os.path.basename(root)!r}")
                cs.count("history_folder_renamed_between_runs")
        emptied = False
        if i > 0 and rng.random() < 0.04:
            # everything below one history folder is gone (card wiped, folder emptied): the history still gets its generation
            victim_h = rng.choice(world.find_histories(root))
            hbase = root if victim_h == "." else os.path.join(root, victim_h)
            for n in os.listdir(hbase):
                if n != "ascmhl" and not (victim_h == "." and any(h2.split("/")[0] == n for h2 in world.find_histories(root) if h2 != ".")):
                    pth = os.path.join(hbase, n)
                    shutil.rmtree(pth) if os.path.isdir(pth) and not os.path.islink(pth) else os.remove(pth)
            tree = world.read_tree(root)
            steps.append(f"emptied {victim_h!r}")
            cs.count("history_folders_emptied")
            emptied = True
        files = sorted(k for k, v in world.read_tree(root).items() if v is not None)
        extra = []
        if files and rng.random() < 0.3 and not emptied:
            for f in rng.sample(files, min(len(files), rng.randint(1, 2))):
                extra += ["-sf", os.path.join(root, f)]
        fm = world.gen_formats(rng) if not long_seq else [rng.choice(world.FORMATS)]
        r, new, before, after = hist.create(root, fm, extra + (["-n"] if (rng.random() < 0.2 or (emptied and rng.random() < 0.6)) and not extra else []))
        steps.append(f"create {fm} sf={len(extra) // 2} => {r.exit}")
        exits.add(r.exit)
        cs.evaluated()
        cs.count("runs_judged")
        cs.count("exit:%s" % r.exit)
        ctx = {"steps": steps[-8:], "zone": zone, "now": now}
        if r.internal:
            cs.violation(classify.internal_key(r), classify.internal_sig(r, "create"), {**ctx, **r.brief()})
            return
        if r.exit not in (0, 10, 11):
            cs.skip("exit-%s" % r.exit)
            return
        utc = _dt.datetime.fromtimestamp(now, _dt.timezone.utc).strftime("%Y-%m-%d_%H%M%S")
        for h in sorted(set(before) | set(after)):
            b = before.get(h, {})
            a = after.get(h)
            if a is None:
                cs.violation("history-vanished", {"kind": "history-vanished"}, {**ctx, "history": h})
                continue
            # 1. nothing existing changed or vanished
            for name, data in b.items():
                if name.endswith(".mhl"):
                    if name not in a:
                        cs.violation("manifest-removed", {"kind": "manifest-removed"}, {**ctx, "history": h, "name": name})
                    elif a[name] != data:
                        cs.violation("manifest-modified", {"kind": "manifest-modified"}, {**ctx, "history": h, "name": name})
            added = sorted(n for n in a if n not in b and n.endswith(".mhl"))
            touched = a != b
            if not touched and not extra and h in before and "ascmhl_chain.xml" in b:
                # a run over the whole folder (no -sf, no pattern given) touches every history below it, whatever is left in it
                cs.violation("touched-history-not-exactly-one-manifest", {"kind": "manifest-count", "added": 0, "folder_mode": True}, {**ctx, "history": h, "added": []})
                continue
            if not touched:
                continue
            cs.count("histories_touched")
            if len(added) != 1:
                cs.violation("touched-history-not-exactly-one-manifest", {"kind": "manifest-count", "added": len(added)}, {**ctx, "history": h, "added": added, "changed": sorted(n for n in a if a.get(n) != b.get(n))})
                continue
            name = added[0]
            m = NAME_RE.match(name)
            prev_nums = [hist.gen_no(n) for n in b if n.endswith(".mhl") and not n.startswith("._") and hist.gen_no(n) is not None]
            want_no = max(prev_nums) + 1 if prev_nums else 1
            folder = os.path.basename(root if h == "." else os.path.join(root, h))
            if not m:
                cs.violation("manifest-name-form", {"kind": "name-form"}, {**ctx, "name": name})
                continue
            if int(m.group(1)) != want_no or len(m.group(1)) != max(4, len(str(want_no))):
                cs.violation("generation-number-wrong", {"kind": "number", "want_gt9": want_no > 9}, {**ctx, "name": name, "want": want_no, "existing": sorted(prev_nums)})
            if m.group(2) != folder:
                cs.violation("manifest-name-folder", {"kind": "name-folder"}, {**ctx, "name": name, "want": folder})
            if m.group(3) != utc:
                cs.violation("manifest-name-time-not-utc", {"kind": "name-time", "zone_is_utc": zone == "UTC"}, {**ctx, "name": name, "want": utc})
            if want_no == 10:
                cs.count("crossed_9_to_10")
            # 2. chain: old entries are a prefix, exactly one new entry that matches the new file
            try:
                cb = xmlread.read_chain_bytes(b["ascmhl_chain.xml"])["entries"] if b.get("ascmhl_chain.xml") else []
                ca = xmlread.read_chain_bytes(a["ascmhl_chain.xml"])["entries"]
            except Exception as e:
                cs.violation("chain-unreadable", {"kind": "chain-unreadable", "exc": type(e).__name__}, {**ctx, "history": h})
                continue
            cs.count("chain_prefix_checked")
            tb = [(e["sequencenr"], e["path"], e["c4"]) for e in cb]
            ta = [(e["sequencenr"], e["path"], e["c4"]) for e in ca]
            if ta[: len(tb)] != tb:
                cs.violation("chain-history-rewritten", {"kind": "chain-prefix"}, {**ctx, "history": h, "before": tb[-3:], "after": ta[-4:]})
            elif len(ta) != len(tb) + 1:
                cs.violation("chain-entry-count", {"kind": "chain-count", "delta": len(ta) - len(tb)}, {**ctx, "history": h})
            else:
                want = (str(want_no), name, refhash.digest("c4", a[name]))
                if ta[-1] != want:
                    cs.violation(
                        "chain-new-entry-wrong",
                        {"kind": "chain-entry", "fields": [f for f, x, y in zip(("sequencenr", "path", "c4"), ta[-1], want) if x != y]},
                        {**ctx, "history": h, "got": ta[-1], "want": want},
                    )
    # 3. reload
    _reload(cs, root, steps, zone, base)
    cs.cls("nested%d" % len(nested), "len%d" % (nruns // 4), "exits" + "".join(str(e) for e in sorted(exits)), "same" if same_second else "adv", "utc" if zone == "UTC" else "zone", "ten" if long_seq else "")
    cs.count("zone:" + zone)
    if same_second:
        cs.count("same_second_sequences")
    cs.sample({"root": rootname, "zone": zone, "nested": nested, "steps": steps[:10]})


def _reload(cs, root, steps, zone, base=1):
    # base: first generation number of the root history (1 unless the harness moved a long-lived history up to 9997+)
    from ascmhl.history import MHLHistory

    cs.count("reload_checked")
    try:
        top = MHLHistory.load_from_path(root)
    except BaseException as e:
        cs.violation("reload-failed", {"kind": "reload-exception", "exc": type(e).__name__}, {"steps": steps[-8:]})
        return
    stack = [top]
    while stack:
        h = stack.pop()
        nums = [hl.generation_number for hl in h.hash_lists]
        rel = os.path.relpath(h.get_root_path(), root)
        ondisk = sorted(hist.gen_no(n) for n in world.manifests(root, rel))
        cs.evaluated()
        first = base if rel == "." else 1
        if nums != list(range(first, first + len(nums))) or nums != ondisk:
            cs.violation("reload-order", {"kind": "reload-order", "gt9": len(nums) > 9}, {"history": rel, "loaded": nums, "on_disk": ondisk, "steps": steps[-6:]})
        stack.extend(h.child_histories)
    r = drive.run("info", [root])
    cs.evaluated()
    if r.exit != 0:
        cs.violation("info-after-sequence-failed", {"kind": "info-exit", "exit": r.exit, "exc": r.exc_class}, {"steps": steps[-6:], "out": r.text[-300:]})
        return
    # first block = root history
    nums = []
    for line in r.out.split("\n")[1:]:
        if line.startswith("  Generation "):
            nums.append(int(line.split()[1]))
        elif line.startswith("Child History"):
            break
    want = sorted(hist.gen_no(n) for n in world.manifests(root, "."))
    if nums != want:
        cs.violation("info-generation-order", {"kind": "info-order", "gt9": len(want) > 9}, {"listed": nums, "on_disk": want})
