"""C12 — ignore patterns exclude consistently and only ever accumulate.

Oracle: O5 (fnmatch-based reference matcher for base-name / glob / `dir/` patterns on root-relative paths), an
order-preserving de-duplicating accumulation model for the <ignore> lists, and a differential run (same tree with the
ignored entries physically removed must give the same directory hashes).  Observed: <ignore> lists and record sets of every
new manifest, printed directory hashes, exit codes and new/missing reports of verify / verify -dh / diff."""
import os
import re
import shutil

from .. import classify, drive, hist, world
from ..oracle import ignoreref, xmlread
from .c07 import _printed

VERBOSITY = False  # stdout of verify -dh -co is parsed / runs must be identical
TECHNIQUE = 'runtime monitoring: accumulation-model checker for <ignore> lists, independent matcher for record sets, differential directory hashes, exit-code oracle after edits under ignored paths'
LEVEL = "exploration"
RULE = (
    "case = tree with pattern fodder (25 % with symbolic links whose own names are pattern fodder) x 1-5 generations, each adding patterns via -i (repeated, duplicates) and/or an -ii file, "
    "flat or nested (children sealed earlier with a subset of the patterns), then edits/additions/removals under ignored paths "
    "followed by verify, verify -dh, diff; class = (pattern classes used, generations, nested, -ii used, edit kind, command)"
)
ASSUMPTIONS = [
    "pattern classes: base name, glob (* ? [..]), `dir/`; anchored patterns with an inner / and -sf combined with -i are outside the statement",
    "the directory entry a `dir/` pattern names is don't-care (a path string cannot tell it is a directory)",
]
MIN_DECIDING = {"accumulation_checked": 100, "records_checked": 500, "ignored_edit_commands": 100, "differential_dirhash": 30}

NAMES = ["Thumbs.db", "skipme", "cache", "scratch notes.txt", "Day 1 temp"]
GLOBS = ["*.tmp", "?x.dat", "[ab]*", "*~", "*.b?k"]


def budget(tier):
    return {"cases": 2000, "seconds": 55} if tier == "quick" else {"cases": 60000, "seconds": 600}


def _dedupe(seq):
    out = []
    for x in seq:
        if x not in out:
            out.append(x)
    return out


def _dr_ignored(cs):
    """a recorded file that a new pattern covers is still on disk; a new file with the same content appears and the
    run detects renames: the ignored path is neither missing nor the former name of anything"""
    rng = cs.rng
    d = cs.dir()
    root = os.path.join(d, world.root_name(rng))
    ign_name, pat = rng.choice([("a.tmp", "*.tmp"), ("render cache.bak", "*.bak"), ("scratch", "scratch"), ("old/a.tmp", "*.tmp")])
    data = b"ignored-later" + rng.randbytes(4)
    files = {ign_name: data, "k.txt": b"k" + rng.randbytes(3), "sub/s.bin": b"s" + rng.randbytes(3)}
    for rel, b in files.items():
        os.makedirs(os.path.dirname(os.path.join(root, rel)), exist_ok=True)
        with open(os.path.join(root, rel), "wb") as f:
            f.write(b)
    fm = world.gen_formats(rng)[:2]
    r = drive.run("create", [root] + world.fmt_args(fm))
    if r.exit != 0:
        cs.skip("prior-seal-failed")
        return
    new_rel = rng.choice(["sub/b.mov", "copy of it.mov"])
    with open(os.path.join(root, new_rel), "wb") as f:
        f.write(data)
    steps = ["create => 0", f"copy {ign_name!r} -> {new_rel!r}"]
    r, new, before, after = hist.create(root, fm, ["-dr", "-i", pat])
    steps.append(f"create -dr -i {pat} => {r.exit}")
    cs.evaluated()
    cs.count("dr_runs_with_recorded_file_ignored_now")
    cs.cls("dr-ignored", pat, r.exit)
    ctx = {"steps": steps, "pattern": pat, "ignored": ign_name}
    if r.internal:
        cs.violation(classify.internal_key(r), classify.internal_sig(r, "create-dr"), {**ctx, **r.brief()})
        return
    if r.exit != 0:
        cs.violation("create-nonzero-on-unchanged-tree", {"kind": "exit", "cmd": "create-dr", "exit": r.exit, "scenario": "dr-ignored"}, {**ctx, "out": r.text[-400:]})
        return
    names = [n for n in new.get(".", []) if n.endswith(".mhl")]
    if len(names) != 1:
        return
    m = xmlread.read_manifest_bytes(after["."][names[0]])
    for h in m["hashes"]:
        if h["path"] == ign_name or h.get("previousPath") == ign_name:
            cs.violation(
                "ignored-path-recorded",
                {"kind": "recorded", "as": "path" if h["path"] == ign_name else "previous-path", "scenario": "dr-ignored"},
                {**ctx, "record": h["path"], "previousPath": h.get("previousPath")},
            )
    if re.search(r"renamed \w+ was detected: from " + re.escape(ign_name) + " to ", r.text):
        cs.violation("ignored-path-reported", {"kind": "reported", "as": "renamed-from", "scenario": "dr-ignored"}, {**ctx, "out": r.text[-400:]})


def run_case(cs):
    if cs.rng.random() < 0.04:
        return _dr_ignored(cs)
    rng = cs.rng
    tree = world.gen_tree(rng, max_files=rng.choice([3, 7]), max_dirs=rng.choice([1, 3, 5]), classes=["plain", "plain", "space", "uni"])
    dirs = [""] + [k for k, v in tree.items() if v is None]
    for n in rng.sample(["a.tmp", "keep.tmp2", "ax.dat", "bfile", "Thumbs.db", "x~", ".DS_Store", "y.bak", "y.bxk", "zx.dat", "scratch notes.txt", "notes.txt", "scratch", "Day 1 temp", "temp"], rng.randint(2, 7)):
        par = rng.choice(dirs)
        tree[(par + "/" if par else "") + n] = world.gen_bytes(rng, rng.randint(1, 9))
    for dn in rng.sample(["skipme", "cache", "adir"], rng.randint(0, 2)):
        par = rng.choice(dirs)
        base = (par + "/" if par else "") + dn
        tree[base] = None
        tree[base + "/inner.dat"] = b"in" + rng.randbytes(2)
        if rng.random() < 0.5:
            tree[base + "/deep"] = None
            tree[base + "/deep/x"] = b"x"
    d = cs.dir()
    root = os.path.join(d, world.root_name(rng))
    world.write_tree(root, tree)
    if rng.random() < 0.25:
        # symbolic links whose own name is pattern fodder while the target's name is not (proxy.tmp -> clip.mov)
        plain = sorted(k for k, v in tree.items() if v is not None and re.match(r"^[A-Za-z0-9]+(\.[a-z0-9]+)?$", os.path.basename(k)) and os.path.basename(k) not in ("temp", "scratch", "bfile"))
        for ln in rng.sample(["proxy.tmp", "link.bak", "lx.dat", "l~", "alink", "Thumbs.db"], rng.randint(1, 2)):
            if not plain:
                break
            tgt = rng.choice(plain)
            par = rng.choice(dirs)
            rel = (par + "/" if par else "") + ln
            if rel in tree or os.path.lexists(os.path.join(root, rel)):
                continue
            os.symlink(os.path.relpath(os.path.join(root, tgt), os.path.dirname(os.path.join(root, rel))), os.path.join(root, rel))
            tree[rel] = tree[tgt]
            cs.count("symlinks_with_pattern_names")
    subdirs = sorted(k for k, v in tree.items() if v is None)
    # gitwildmatch strips unescaped leading/trailing blanks and gives # ! \\ [ ] * ? a meaning: only plain names become patterns
    dirpats = [os.path.basename(s) + "/" for s in rng.sample(subdirs, min(len(subdirs), 2)) if re.match(r"^[A-Za-z0-9_.][A-Za-z0-9_.-]*$", os.path.basename(s))]
    pool = NAMES + GLOBS + dirpats
    if rng.random() < 0.25:
        # patterns with a folder component (tied to the root folder), reaching into sub folders and nested histories
        deep = sorted(k for k in tree if k.count("/") >= 1 and re.match(r"^[A-Za-z0-9_.~/-]+$", k) and not k.startswith("-"))
        for k in rng.sample(deep, min(len(deep), 2)):
            pool.append(rng.choice([k, "/".join(k.split("/")[:-1]) + "/*.tmp", "/".join(k.split("/")[-2:]), "/".join(k.split("/")[:-1]) + "/" + os.path.basename(k)[:1] + "*"]))
            cs.count("anchored_patterns_in_pool")
    nested = rng.sample(subdirs, min(len(subdirs), rng.choice([0, 0, 1, 2])))
    first_pats = rng.sample(pool, rng.randint(1, 3))
    if rng.random() < 0.04:
        # an outer nested history records a folder, then a history is created further in with a folder pattern for it,
        # then the run on the root brings the same pattern: the folder is ignored, not missing
        for rel, data in (("outerK", None), ("outerK/adir", None), ("outerK/adir/deep", None), ("outerK/adir/deep/x.bin", b"x"), ("outerK/adir/keep.bin", b"k"), ("outerK/o.bin", b"o")):
            if data is None:
                os.makedirs(os.path.join(root, rel), exist_ok=True)
            else:
                with open(os.path.join(root, rel), "wb") as f:
                    f.write(data)
            tree[rel] = data
        nested = ["outerK", "outerK/adir"]
        first_pats = ["deep/"] + [p for p in first_pats if p != "deep/"][:1]
        cs.count("folder_pattern_for_a_folder_recorded_by_an_outer_history")
    steps = []
    # children first, with a subset of the parent's first patterns
    child_prev = {}
    for n in nested:
        sub = [p for p in first_pats if rng.random() < 0.5]
        if n == "outerK":
            sub = [p for p in sub if p != "deep/"]
        elif n == "outerK/adir":
            sub = ["deep/"] + [p for p in sub if p != "deep/"]
        r = drive.run("create", [os.path.join(root, n), "-h", "md5"] + [x for p in sub for x in ("-i", p)])
        steps.append(f"child {n!r} -i {sub} => {r.exit}")
        if r.exit != 0:
            cs.skip("child-seal-failed")
            return
    # baseline for the accumulation model: what each nested history holds now (sealing a child also writes a
    # generation into histories nested below it, so this is read back rather than modelled)
    for n in world.find_histories(root):
        child_prev[n] = hist.latest_patterns(root, n)
    gens = rng.randint(1, 5)
    model = None  # root history's current pattern list
    used_ii = False
    classes_used = set()
    travel = rng.random() < 0.2
    tnow = 1700000000 + rng.randint(0, 10**7)
    if travel:
        cs.count("travelling_histories")
    for g in range(gens):
        if travel:
            # every generation under another zone: "latest" is the last generation, not the greatest date text
            from .. import clock

            tnow += rng.choice([2, 60, 3600, 7200])
            clock.set_zone(rng.choice(["Pacific/Kiritimati", "Pacific/Pago_Pago", "UTC", "Asia/Tokyo", "America/Los_Angeles", "Europe/Berlin"]))
            clock.freeze(tnow)
        cli = list(first_pats) if g == 0 else rng.sample(pool, rng.choice([0, 0, 1, 2]))
        if cli and rng.random() < 0.3:
            cli.append(rng.choice(cli))  # duplicate on the command line
        filep = []
        extra = [x for p in cli for x in ("-i", p)]
        if rng.random() < 0.25:
            filep = rng.sample(pool + ["*.log", "render?", "scratch notes.txt", "Day 1 temp", "* copy.*"], rng.randint(1, 3))
            pf = os.path.join(d, "pat%d.txt" % g)
            with open(pf, "w") as f:
                f.write("\n".join(filep) + ("\n" if rng.random() < 0.7 else "") + ("\n" if rng.random() < 0.2 else ""))
            extra += ["-ii", pf]
            used_ii = True
        for p in cli + filep:
            classes_used.add(ignoreref.classify(p))
        prev = model if model is not None else list(ignoreref.DEFAULTS)
        want = _dedupe(prev + cli + filep)
        fm = [rng.choice(world.FORMATS)]
        sf_gen = False
        if g > 0 and not cli and not filep and rng.random() < 0.5:
            # a -sf generation (no pattern options): the accumulated list must survive it unchanged
            cand = sorted(k for k, v in world.read_tree(root).items() if v is not None and ignoreref.match(prev, k) is False)
            if cand:
                sf_gen = True
                extra = ["-sf", os.path.join(root, rng.choice(cand))]
        r, new, before, after = hist.create(root, fm, extra + (["-n"] if rng.random() < 0.15 and not sf_gen else []))
        steps.append(f"g{g + 1} -i {cli} -ii {filep}{' (-sf generation)' if sf_gen else ''} => {r.exit}")
        cs.evaluated()
        if r.internal:
            cs.violation(classify.internal_key(r), classify.internal_sig(r, "create"), {"steps": steps, **r.brief()})
            return
        if r.exit != 0:
            cs.violation("create-nonzero-on-unchanged-tree", {"kind": "create-exit", "exit": r.exit}, {"steps": steps, "out": r.text[-400:]})
            return
        ondisk = world.read_tree(root)
        hists = world.find_histories(root)
        for h, names in new.items():
            for nme in names:
                if not nme.endswith(".mhl"):
                    continue
                m = xmlread.read_manifest_bytes(after[h][nme])
                got = m["processinfo"]["ignore"]
                cs.count("accumulation_checked")
                if h == ".":
                    exp = want
                elif sf_gen:
                    exp = _dedupe(child_prev.get(h, list(ignoreref.DEFAULTS)))  # -sf sessions carry the defaults only
                    cs.count("sf_generation_nested_checked")
                else:
                    exp = _dedupe(child_prev.get(h, list(ignoreref.DEFAULTS)) + want)
                    child_prev[h] = exp
                if sf_gen:
                    cs.count("sf_generations_checked")
                if got != exp:
                    cs.violation(
                        "ignore-list-not-accumulated",
                        {
                            "kind": "ignore-list",
                            "nested": h != ".",
                            "lost": sorted(set(exp) - set(got or [])) != [],
                            "extra": sorted(set(got or []) - set(exp)) != [],
                            "order_only": got is not None and sorted(got) == sorted(exp),
                        },
                        {"steps": steps, "history": h, "got": got, "want": exp},
                    )
                for rec in m["hashes"]:
                    rel = rec["path"] if h == "." else h + "/" + rec["path"]
                    cs.count("records_checked")
                    comps = rel.split("/")
                    if "ascmhl" in comps or ".DS_Store" in comps:
                        cs.violation("always-ignored-name-recorded", {"kind": "default-ignore-recorded"}, {"steps": steps, "path": rel})
                    elif ignoreref.match(want, rel, rec["kind"] == "dir") is True:
                        cs.violation(
                            "ignored-path-recorded",
                            {"kind": "ignored-recorded", "what": rec["kind"], "nested": h != "."},
                            {"steps": steps, "path": rel, "patterns": want},
                        )
        model = want
        if g == 0 and rng.random() < 0.3:
            # a nested history that appears only now (sealed on its own, without pattern options): the next parent run
            # must hand the parent's patterns down to it
            late = [x for x in subdirs if x not in nested and ignoreref.match(model, x) is False and os.path.isdir(os.path.join(root, x))]
            if late:
                ln = rng.choice(late)
                r = drive.run("create", [os.path.join(root, ln), "-h", "md5"])
                steps.append(f"late child {ln!r} => {r.exit}")
                if r.exit == 0:
                    nested.append(ln)
                    for n2 in world.find_histories(root):
                        child_prev[n2] = hist.latest_patterns(root, n2)
                    cs.count("late_child_histories")
    eff = model
    # ---- differential directory hashes: ignored entries physically removed must not change anything
    f0 = rng.choice(world.FORMATS)
    extra_i = [x for p in eff if p not in ignoreref.DEFAULTS for x in ("-i", p)]
    plain = os.path.join(d, "vf-plain")
    shutil.copytree(root, plain, ignore=shutil.ignore_patterns("ascmhl"))
    r1 = drive.run("verify", [plain, "-dh", "-co", "-h", f0] + extra_i)
    stripped = os.path.join(d, "vf-stripped")
    shutil.copytree(plain, stripped)
    removed = 0
    for rel in sorted(world.read_tree(stripped), key=lambda s: -s.count("/")):
        if os.path.lexists(os.path.join(stripped, rel)) and ignoreref.match(eff, rel, os.path.isdir(os.path.join(stripped, rel)) and not os.path.islink(os.path.join(stripped, rel))) is True:
            p = os.path.join(stripped, rel)
            shutil.rmtree(p) if os.path.isdir(p) else os.remove(p)
            removed += 1
    r2 = drive.run("verify", [stripped, "-dh", "-co", "-h", f0])
    cs.evaluated()
    if r1.exit == 0 and r2.exit == 0 and removed:
        a, b = _printed(r1.out).get(f0, {}), _printed(r2.out).get(f0, {})
        cs.count("differential_dirhash")
        common = [k for k in b if k in a]
        bad = [k for k in common if a[k] != b[k]]
        extra_dirs = [k for k in a if k not in b and ignoreref.match(eff, k, True) is True]
        if bad or extra_dirs:
            cs.violation(
                "ignored-entry-contributes-to-directory-hash",
                {"kind": "dirhash-differential", "changed": bool(bad), "ignored_dir_hashed": bool(extra_dirs)},
                {"steps": steps, "dirs": bad[:4] + extra_dirs[:4], "patterns": eff},
            )
    elif r1.internal or r2.internal:
        rr = r1 if r1.internal else r2
        cs.violation(classify.internal_key(rr), classify.internal_sig(rr, "verify-dh-co"), rr.brief())
    shutil.rmtree(plain, ignore_errors=True)
    shutil.rmtree(stripped, ignore_errors=True)
    # ---- edits under ignored paths, then verify / verify -dh / diff must stay quiet
    ondisk = world.read_tree(root)
    ign_files = sorted(k for k, v in ondisk.items() if v is not None and ignoreref.match(eff, k) is True)
    # an edit through an ignored link would change its (not ignored) target, removing the target of a link leaves the
    # link dangling: both change not ignored paths, so links and their targets are left alone here
    link_ends = set()
    for k in ondisk:
        pk = os.path.join(root, k)
        if os.path.islink(pk):
            link_ends.add(os.path.realpath(pk))
            link_ends.add(os.path.abspath(pk))
    ign_files = [k for k in ign_files if os.path.abspath(os.path.join(root, k)) not in link_ends and os.path.realpath(os.path.join(root, k)) not in link_ends]
    kind = rng.choice(["edit", "add", "remove", "none"])
    what = None
    if kind == "edit" and ign_files:
        what = rng.choice(ign_files)
        with open(os.path.join(root, what), "ab") as f:
            f.write(b"!")
    elif kind == "remove" and ign_files:
        what = rng.choice(ign_files)
        os.remove(os.path.join(root, what))
    elif kind == "add":
        par = rng.choice([""] + [k for k, v in ondisk.items() if v is None])
        for nme in [".DS_Store", "new.tmp", "bnew", "qx.dat", "new~"]:
            rel = (par + "/" if par else "") + nme
            if ignoreref.match(eff, rel) is True and rel not in ondisk:
                what = rel
                with open(os.path.join(root, rel), "wb") as f:
                    f.write(b"new")
                break
    if what is None:
        kind = "none"
    pats_from_first_gen = gens == 1 or all("-i []" in s and "-ii []" in s for s in steps if s.startswith("g") and not s.startswith("g1 "))
    for cmd, argv in (("verify", [root]), ("diff", [root]), ("verify-dh", [root, "-dh"])):
        if cmd == "verify-dh" and not pats_from_first_gen:
            cs.skip("verify-dh-patterns-added-later")
            continue
        if cmd == "verify-dh" and nested:
            # children were sealed on their own with fewer patterns: their first generation saw a different tree
            cs.skip("verify-dh-child-sealed-with-subset")
            continue
        r = drive.run("verify" if cmd != "diff" else "diff", argv)
        cs.evaluated()
        cs.count("ignored_edit_commands")
        cs.cls("+".join(sorted(classes_used)), "g%d" % gens, "nested" if nested else "flat", "ii" if used_ii else "", kind, cmd)
        ctx = {"steps": steps, "edit": kind, "path": what, "patterns": eff, "cmd": cmd}
        if r.internal:
            cs.violation(classify.internal_key(r), classify.internal_sig(r, cmd), {**ctx, **r.brief()})
        elif r.exit != 0:
            mentions = what is not None and any(what in l for l in r.text.split("\n"))
            cs.violation(
                "ignored-path-affects-verification",
                {"kind": "ignored-edit-nonzero", "cmd": cmd, "edit": kind, "exit": r.exit, "names_ignored_path": mentions},
                {**ctx, "out": r.text[-500:]},
            )
    # ---- a pattern given to verify / diff on the command line excludes a file that is not recorded
    if rng.random() < 0.3:
        newf = "cli-ignored-%d.xyz" % rng.randint(0, 99)
        with open(os.path.join(root, newf), "wb") as f:
            f.write(b"new")
        for cmd in ("verify", "diff"):
            r = drive.run(cmd, [root, "-i", "*.xyz"])
            cs.evaluated()
            cs.count("cli_pattern_commands")
            if r.internal:
                cs.violation(classify.internal_key(r), classify.internal_sig(r, cmd + "-i"), r.brief())
            elif r.exit != 0:
                cs.violation("ignored-path-affects-verification", {"kind": "ignored-edit-nonzero", "cmd": cmd + " -i", "edit": "add-unrecorded", "exit": r.exit, "names_ignored_path": newf in r.text}, {"steps": steps, "out": r.text[-300:]})
        os.remove(os.path.join(root, newf))
    cs.sample({"steps": steps, "edit": kind, "path": what, "effective": eff})
