"""C20 — the background update check can never change or stall a command.

Three monitors: (1) real-stack fault sweep: the real console entry points run in sub-processes against a raw-socket fault
server on 127.0.0.1 (only the URL is rewritten; the real `requests` stack is used) and are compared with the bare command
(`ascmhl.commands.<cmd>` in a process that never imports ascmhl.cli) on an identical copy of the tree; (2) deterministic
schedule enumeration: a line-level two-thread scheduler (sys.monitoring) drives every sampled/enumerated interleaving of the
checker thread with the result callback per reply class, the join timeout elapsing in virtual time; (3) termination bound
from (1) with a two-threshold rule, and its logical half (finite join timeout <= 1 s, daemon thread) asserted in (2)."""
import contextlib
import io
import itertools
import json
import math
import os
import shutil
import threading
import time

from .. import drive, env, httpfault, sched, world

SPELLING = False  # this monitor controls the spelling of path arguments itself
VERBOSITY = False  # stdout of verify -dh -co is parsed / runs must be identical
TECHNIQUE = 'runtime monitoring: real-stack fault sweep against a loopback fault server, deterministic line-level two-thread schedule enumeration via sys.monitoring, two-threshold termination bound'
LEVEL = "exploration"
RULE = (
    "sweep case = (command incl. failing ones and --help/--version, tool ascmhl|ascmhl-debug) x server behaviour (immediate / "
    "delayed on a grid around the 1 s join window / hanging / reset / refused / HTTP error / truncated / non-JSON / wrong JSON "
    "shapes / any tag string); schedule case = reply class x interleaving of checker-thread line steps with callback line "
    "steps (seeded sample in quick, all C(n+m,n) in thorough); class = (command, behaviour class, outcome) and "
    "(reply class, distinct executed line trace)"
)
ASSUMPTIONS = [
    "line-level (statement-start) interleavings, not byte-code level",
    "wall-clock is only used with two thresholds: extra <= 2.5 s ok, > 10 s or no exit within 30 s violation, in between inconclusive after retries",
    "stderr noise of the checker thread is not part of the statement and only counted",
]
MIN_DECIDING = {"sweep_runs": 40, "schedules_run": 500, "distinct_schedule_traces": 100}

NOTICE = "Please update to the latest ascmhl version using `pip3 install -U ascmhl`.\n"
_srv = {}

def _relatives_of_installed():
    """version strings derived from the installed one: same release with post / local / epoch / pre parts"""
    try:
        from packaging import version as _v
        from ascmhl.__version__ import ascmhl_tool_version as cur

        rel = ".".join(str(x) for x in _v.parse(cur).release)
    except Exception:
        rel = "0.1"
    try:
        parts = [int(x) for x in rel.split(".")] + [0, 0]
    except ValueError:
        parts = [0, 1, 0]
    ma, mi, mc = parts[:3]
    # the next releases of the installed series and the next series: bug fix, feature and major releases
    bumps = [f"v{ma}.{mi}.{mc + 1}", f"{ma}.{mi}.{mc + 7}", f"v{ma}.{mi + 1}", f"v{ma}.{mi + 1}.0", f"v{ma + 1}.0", f"{ma + 1}.0.0", f"v{ma}.{mi}.{mc + 1}.post1"]
    return bumps + ["v" + rel, rel + ".post1", "v" + rel + "-1", rel + "+local.build", "1!" + rel, rel + ".0", rel + ".0.0.1", rel + "rc1", rel + ".dev0", rel + ".post1.dev2"]


TAGS = _relatives_of_installed() + ["v0.0.1", "v99.0.0", "v99.0.0-alpha.2", "v99.dev1", "garbage", "", None, 123, "99", "v1.2.3.4.5", "v99.0.0rc1", "continuous-integration-build-nightly", "a" * 64, "release_" * 8, "v" + "9" * 400, "1.0." + "0." * 60 + "1"]


def budget(tier):
    return {"cases": 480, "seconds": 50} if tier == "quick" else {"cases": 12000, "seconds": 900}


def init(tier):
    _srv["s"] = httpfault.FaultServer()
    _srv["closed"] = httpfault.closed_port()


def run_case(cs):
    idx = int(cs.seed_str.rsplit(":", 1)[1])
    if idx % 3 == 0:
        _sweep_case(cs)
    else:
        _sched_case(cs)


# ------------------------------------------------------------------------------------------ (1) + (3)
def _behaviour(rng):
    body = lambda tag: json.dumps({"tag_name": tag})
    k = rng.choice(["ok", "ok", "delay", "delay", "delay", "hang", "rst", "close", "refused", "status", "trunc", "nonjson", "shape", "slowhead", "slowbody", "raw", "redirect"])
    tag = rng.choice(TAGS)
    if k == "ok":
        return "ok:" + body(tag), "ok:" + str(tag)
    if k == "delay":
        dly = rng.choice([0.05, 0.2, 0.5, 0.8, 0.95, 1.0, 1.05, 1.3, 2.0, 4.0])
        return f"delay:{dly}:" + body(rng.choice(["v99.0.0", "v0.0.1"])), "delay:%s" % dly
    if k == "status":
        c = rng.choice([301, 400, 403, 404, 429, 500, 503])
        return "status:%d" % c, "status"
    if k == "trunc":
        return "trunc:" + body("v99.0.0"), "trunc"
    if k == "nonjson":
        return "ok:" + rng.choice(["<html>rate limited</html>", "", "null", "tag_name", "﻿{}"]), "nonjson"
    if k == "shape":
        return "ok:" + rng.choice(["{}", "[]", "[1,2]", '"v99.0.0"', '{"tag_name": {"a": 1}}', '{"tag_name": ["v99"]}', "123", "true"]), "shape"
    if k == "slowhead":
        return "slowhead:%s:%s" % (rng.choice([0.5, 1.5, 3]), body("v99.0.0")), "slowhead"
    if k == "slowbody":
        return "slowbody:%s:%s" % (rng.choice([0.5, 1.5, 3]), body("v99.0.0")), "slowbody"
    if k == "redirect":
        return "redirect:" + rng.choice(["loop", "ok:" + body("v99.0.0"), "ok:" + body("garbage")]), "redirect"
    if k == "raw":
        return "raw:" + rng.choice(["garbage\r\n\r\n", "HTTP/1.1 200 OK\r\n", "HTTP/9.9 999\r\n\r\n", "\x00\x01\x02"]), "raw"
    return k, k


def _sweep_case(cs):
    rng = cs.rng
    d = cs.dir()
    base = os.path.join(d, "base")
    root = os.path.join(base, "root")
    tree = world.gen_tree(rng, max_files=4, max_dirs=2, min_files=1, classes=["plain", "space", "uni"])
    world.write_tree(root, tree)
    files = sorted(k for k, v in tree.items() if v is not None)
    spec = rng.choice(["create", "create", "create-sf", "diff", "info", "info-sf", "flatten", "verify", "verify-dh", "hash", "xsd", "help", "version", "subhelp", "missing10", "altered11", "new21", "nohist30", "tamper31", "usage2"])
    needs_hist = spec not in ("create", "nohist30", "hash", "help", "version", "subhelp", "usage2")
    if needs_hist or rng.random() < 0.5:
        if spec != "nohist30":
            drive.run("create", [root, "-h", "md5"])
    f0 = files[0]
    tool = "ascmhl"
    R = "{root}"
    if spec == "create":
        cmd, argv = "create", [R, "-h", rng.choice(world.FORMATS)]
    elif spec == "create-sf":
        cmd, argv = "create", [R, "-sf", R + "/" + f0]
    elif spec == "diff":
        cmd, argv = "diff", [R]
    elif spec == "info":
        cmd, argv = "info", [R]
    elif spec == "info-sf":
        cmd, argv = "info", ["-sf", R + "/" + f0]
    elif spec == "flatten":
        cmd, argv = "flatten", [R, "{dest}"]
    elif spec == "verify":
        tool, cmd, argv = "ascmhl-debug", "verify", [R]
    elif spec == "verify-dh":
        tool, cmd, argv = "ascmhl-debug", "verify", [R, "-dh"]
    elif spec == "hash":
        tool, cmd, argv = "ascmhl-debug", "hash", [R + "/" + f0, "-h", rng.choice(world.FORMATS)]
    elif spec == "xsd":
        ms = world.manifests(root)
        tool, cmd, argv = "ascmhl-debug", "xsd-schema-check", [R + "/ascmhl/" + ms[0], "-xsd", os.path.join(env.REPO, "xsd", "ASCMHL.xsd")]
    elif spec == "help":
        tool, cmd, argv = rng.choice(["ascmhl", "ascmhl-debug"]), None, ["--help"]
    elif spec == "version":
        tool, cmd, argv = rng.choice(["ascmhl", "ascmhl-debug"]), None, ["--version"]
    elif spec == "subhelp":
        cmd, argv = None, ["create", "--help"]
    elif spec == "missing10":
        os.remove(os.path.join(root, f0))
        cmd, argv = "diff", [R]
    elif spec == "altered11":
        with open(os.path.join(root, f0), "ab") as f:
            f.write(b"!")
        cmd, argv = "create", [R, "-h", "md5"]
    elif spec == "new21":
        with open(os.path.join(root, "zz-new.bin"), "wb") as f:
            f.write(b"new")
        tool, cmd, argv = "ascmhl-debug", "verify", [R]
    elif spec == "nohist30":
        cmd, argv = "info", [R]
    elif spec == "tamper31":
        ms = world.manifests(root)
        with open(os.path.join(root, "ascmhl", ms[0]), "ab") as f:
            f.write(b"\n")
        cmd, argv = "diff", [R]
    else:
        cmd, argv = "create", [R, "-h", "crc32"]
    if cmd in ("create", "diff", "info", "flatten", "verify") and spec != "usage2" and rng.random() < 0.4:
        argv = argv + ["-v"]  # the command sets the process-wide verbose flag, which the checker thread can see
        cs.count("sweep_verbose")
    beh, bcls = _behaviour(rng)
    srv = _srv["s"]
    port = srv.port
    if beh == "refused":
        port = _srv["closed"]
    else:
        srv.behaviour = beh
    A = os.path.join(d, "A")
    B = os.path.join(d, "B")
    shutil.copytree(base, A, symlinks=True)
    shutil.copytree(base, B, symlinks=True)

    def fill(a, where):
        return [x.replace("{root}", os.path.join(where, "root")).replace("{dest}", os.path.join(where, "dest")) for x in a]

    common = {"VF_NOW": "1700000000", "TZ": "UTC"}
    if cmd is not None:
        ref = drive.run_sub("bare:" + cmd, fill(argv, A), extra_env={**common, "VF_STAMP": os.path.join(d, "a.json")}, timeout=60)
        cli_argv = [cmd] + fill(argv, B)
    else:
        ref = drive.run_sub(tool, fill(argv, A), extra_env={**common, "VF_HTTP": str(_srv["closed"]), "VF_STAMP": os.path.join(d, "a.json")}, timeout=60)
        cli_argv = fill(argv, B)
    best = None
    for attempt in range(3):
        if attempt:
            shutil.rmtree(B)
            shutil.copytree(base, B, symlinks=True)
        res = drive.run_sub(tool, cli_argv, extra_env={**common, "VF_HTTP": str(port), "VF_STAMP": os.path.join(d, "b.json")}, timeout=30)
        sa = _stamps(os.path.join(d, "a.json"))
        sb = _stamps(os.path.join(d, "b.json"))
        if res.exit is None:
            extra = 30.0
        elif sa and sb:
            extra = (sb["t_exit"] - sb["t0"]) - (sa["t_exit"] - sa["t0"])
        else:
            extra = res.wall - ref.wall
        if best is None or extra < best[0]:
            best = (extra, res, sb)
        if extra <= 2.5 or extra > 10 or res.exit is None:
            break
    extra, res, sb = best
    cs.evaluated()
    cs.count("sweep_runs")
    cs.count("behaviour:" + bcls.split(":")[0])
    phase = "no-request"
    if sb and "get_called" in sb:
        phase = "reply-before-exit" if "get_returned" in sb else "no-reply-before-exit"
    cs.count("phase:" + phase)
    na = ref.out.replace(A, "<W>")
    nb = (res.out or "").replace(B, "<W>")
    ctx = {"spec": spec, "tool": tool, "behaviour": beh, "argv": argv, "extra_s": round(extra, 2), "phase": phase}
    outcome = "same"
    if res.exit is None:
        cs.violation("command-does-not-terminate", {"kind": "no-exit-within-30s", "behaviour": bcls.split(":")[0]}, ctx)
        outcome = "hang"
    else:
        if res.exit != ref.exit:
            cs.violation("update-check-changes-exit-code", {"kind": "exit-differs", "behaviour": bcls.split(":")[0], "bare": ref.exit, "cli": res.exit, "spec": spec}, {**ctx, "stderr": (res.err or "")[-400:]})
            outcome = "exit"
        if nb != na and nb != na + NOTICE:
            cs.violation(
                "update-check-changes-stdout",
                {"kind": "stdout-differs", "behaviour": bcls.split(":")[0], "notice_inside": NOTICE.strip() in nb and not nb.endswith(NOTICE), "spec": spec},
                {**ctx, "bare": na[-300:], "cli": nb[-400:]},
            )
            outcome = "stdout"
        elif nb == na + NOTICE:
            cs.count("notice_seen")
            outcome = "notice"
        if extra > 10:
            cs.violation("update-check-stalls-command", {"kind": "stall", "behaviour": bcls.split(":")[0], "seconds": int(extra)}, ctx)
            outcome = "stall"
        elif extra > 2.5:
            # neither clearly fine nor clearly stalled after 3 attempts (loaded machine?): counted, never a verdict;
            # finish() turns the run inconclusive when this is not rare
            cs.count("timing_band_inconclusive")
            outcome = "timing-band"
    cs.count("max_extra_ms_bucket:%d" % min(30, int(max(0, extra) * 2) * 500 // 500))
    cs.cls("sweep", spec, bcls.split(":")[0], outcome)
    cs.sample({"spec": spec, "tool": tool, "behaviour": beh, "exit": res.exit, "extra_s": round(extra, 2), "phase": phase})


def _stamps(p):
    try:
        with open(p) as f:
            return json.load(f)
    except Exception:
        return None


# ------------------------------------------------------------------------------------------ (2)
class _Resp:
    def __init__(self, kind, payload=None):
        self.kind, self.payload = kind, payload

    def raise_for_status(self):
        import requests

        if self.kind == "http-error":
            raise requests.exceptions.HTTPError("503")

    def json(self):
        import requests

        if self.kind == "json-error":
            raise requests.exceptions.JSONDecodeError("bad", "x", 0)
        if self.kind == "json-valueerror":
            raise ValueError("not json")
        return self.payload


REPLIES = (
    [("tag:" + repr(t), ("resp", _Resp("ok", {"tag_name": t}))) for t in TAGS]
    + [
        ("shape:{}", ("resp", _Resp("ok", {}))),
        ("shape:[]", ("resp", _Resp("ok", []))),
        ("shape:str", ("resp", _Resp("ok", "v99.0.0"))),
        ("http-error", ("resp", _Resp("http-error"))),
        ("json-error", ("resp", _Resp("json-error"))),
        ("json-valueerror", ("resp", _Resp("json-valueerror"))),
        ("connection-error", ("raise", "ConnectionError")),
        ("timeout", ("raise", "Timeout")),
        ("oserror", ("raise", "OSError")),
        ("hang", ("hang", None)),
    ]
)

_mods = {}


def _load_cli():
    if not _mods:
        import requests

        real = requests.get
        requests.get = lambda *a, **k: (_ for _ in ()).throw(requests.exceptions.ConnectionError("stubbed during import"))
        import ascmhl.cli.ascmhl as a
        import ascmhl.cli.ascmhl_debug as b
        import ascmhl.cli.update as u

        for m in (a, b):
            try:
                m.updater.join(2)
            except Exception:
                pass
        _mods.update({"a": a, "b": b, "u": u, "real_get": real, "requests": requests})
        codes = []
        for fn in (getattr(u.Updater, "run", None), getattr(u.Updater, "_get_latest_version", None)):
            if fn is not None:
                codes.append(fn.__code__)
        for name, obj in vars(u.Updater).items():
            if isinstance(obj, property) and obj.fget is not None:
                codes.append(obj.fget.__code__)
            elif callable(obj) and hasattr(obj, "__code__") and name not in ("__init__",) and obj.__code__ not in codes:
                codes.append(obj.__code__)
        for m in (a, b):
            if hasattr(m, "update") and hasattr(m.update, "__code__"):
                codes.append(m.update.__code__)
        sched.install(codes)
    return _mods


def _one(modkey, reply, schedule):
    M = _load_cli()
    requests = M["requests"]
    u = M["u"]
    mod = M[modkey]
    kind, payload = reply
    release = threading.Event()
    holder = {}
    s = sched.Sched(schedule, lambda: holder.get("t"))

    def get(*a, **k):
        if kind == "resp":
            return payload
        if kind == "raise":
            exc = {"ConnectionError": requests.exceptions.ConnectionError, "Timeout": requests.exceptions.Timeout, "OSError": OSError}[payload]
            raise exc("injected")
        s.park("T")
        release.wait(10)
        s.park("T", False)
        raise requests.exceptions.ConnectionError("released")

    requests.get = get
    thread_exc = []
    old_hook = threading.excepthook
    threading.excepthook = lambda args: thread_exc.append(type(args.exc_value).__name__)
    out = io.StringIO()
    main_exc = None
    join_args = []
    sched.activate(s)
    try:
        with contextlib.redirect_stdout(out):
            orig_start = u.Updater.start

            def start(self):
                holder["t"] = self
                return orig_start(self)

            u.Updater.start = start
            try:
                upd = u.Updater()
            finally:
                u.Updater.start = orig_start
            holder["t"] = upd
            real_join = upd.join

            def join(timeout=None):
                join_args.append(timeout)
                if timeout is None:
                    # an unbounded join cannot return before the thread is done
                    s.park("M")
                    real_join(4)
                    s.park("M", False)

            upd.join = join
            old = mod.updater
            mod.updater = upd
            jump = _mods.get("jump", 0.0)
            saved_clocks = {}
            if jump:
                # the command body "took" `jump` seconds: every clock an implementation could consult moves on
                for nm in ("time", "monotonic", "perf_counter"):
                    saved_clocks[nm] = getattr(time, nm)
                    setattr(time, nm, (lambda f: (lambda: f() + jump))(saved_clocks[nm]))
            try:
                mod.update()
            except BaseException as e:  # noqa
                main_exc = e
            finally:
                for nm, f in saved_clocks.items():
                    setattr(time, nm, f)
                mod.updater = old
            s.finish("M")
        release.set()
        real_join(5)
        alive = upd.is_alive()
    finally:
        sched.deactivate()
        threading.excepthook = old_hook
        release.set()
    return {
        "stdout": out.getvalue(),
        "main_exc": main_exc,
        "thread_exc": thread_exc,
        "join_args": join_args,
        "daemon": upd.daemon,
        "trace": tuple(s.trace),
        "stuck": s.stuck,
        "alive": alive,
    }


_PRESCREEN = {}
_PRESCREEN_SRC = """
import sys, json
import ascmhl.cli.update as U
tag = json.loads(sys.argv[1])
class R:
    def raise_for_status(self): pass
    def json(self): return {"tag_name": tag}
U.requests.get = lambda *a, **k: R()
u = U.Updater.__new__(U.Updater)
U.Thread.__init__(u)
u.latest_version = None
u.finished = False
try:
    u._get_latest_version()
except Exception:
    pass
try:
    u.needs_update
except Exception:
    pass
"""


def _tag_terminates(tag):
    """the checker's own handling of this tag (parse + comparison), run in a sub-process: a tag that keeps the interpreter
    busy for more than 20 s would starve the main thread (one interpreter lock) and freeze this worker as well"""
    import subprocess

    from .. import env

    key = json.dumps(tag)
    if key not in _PRESCREEN:
        e = dict(os.environ, PYTHONPATH=env.REPO, PYTHONDONTWRITEBYTECODE="1")
        try:
            subprocess.run([env.PY, "-c", _PRESCREEN_SRC, key], env=e, stdout=subprocess.DEVNULL, stderr=subprocess.DEVNULL, timeout=20)
            _PRESCREEN[key] = True
        except subprocess.TimeoutExpired:
            _PRESCREEN[key] = False
    return _PRESCREEN[key]


def _sched_case(cs):
    rng = cs.rng
    name, reply = rng.choice(REPLIES)
    if name.startswith("tag:"):
        tag = reply[1].payload.get("tag_name")
        cs.count("tags_prescreened")
        if not _tag_terminates(tag):
            cs.evaluated()
            cs.violation("update-check-stalls-command", {"kind": "stall", "behaviour": "tag-handling-cpu-bound", "seconds": 20}, {"tag": repr(tag)[:80]})
            return
    modkey = rng.choice(["a", "b"])
    # process-wide state the command body leaves behind when the callback runs (e.g. after `create -v`)
    import ascmhl.logger as _lg

    _lg.verbose_logging = rng.random() < 0.4
    _lg.debug_logging = False
    name = name + ("+verbose" if _lg.verbose_logging else "")
    _load_cli()
    _mods["jump"] = rng.choice([0.0, 0.0, 0.9, 1.5, 30.0, 4000.0])
    name = name + ("+slowcmd" if _mods["jump"] else "")
    free = _one(modkey, reply, "")
    nT = sum(1 for t in free["trace"] if t[0] == "T") + 2
    nM = sum(1 for t in free["trace"] if t[0] == "M") + 2
    total = math.comb(nT + nM, nT)
    exhaustive = cs.tier == "thorough" and total <= 60000
    if exhaustive:
        scheds = ["".join("T" if i in c else "M" for i in range(nT + nM)) for c in itertools.combinations(range(nT + nM), nT)]
        cs.count("reply_classes_enumerated_exhaustively")
    else:
        n = 200 if cs.tier == "quick" else 1500
        scheds = []
        for _ in range(n):
            l = ["T"] * nT + ["M"] * nM
            rng.shuffle(l)
            scheds.append("".join(l))
        scheds += ["T" * nT + "M" * nM, "M" * nM + "T" * nT]
        for cut in range(nT + 1):
            scheds.append("T" * cut + "M" * nM + "T" * (nT - cut))  # join "times out" with the thread parked at step `cut`
    traces = set()
    for sc in scheds:
        r = _one(modkey, reply, sc)
        cs.evaluated()
        cs.count("schedules_run")
        traces.add(r["trace"])
        ctx = {"reply": name, "module": "ascmhl" if modkey == "a" else "ascmhl_debug", "schedule": sc, "trace": list(r["trace"])[:40]}
        for e in r["thread_exc"]:
            cs.count("checker_thread_exception:" + e)
        if r["stuck"]:
            raise RuntimeError("scheduler stuck: " + json.dumps(ctx)[:300])
        if r["main_exc"] is not None:
            cs.violation(
                "update-callback-raises",
                {"kind": "callback-exception", "exc": type(r["main_exc"]).__name__, "reply": name.split(":")[0]},
                {**ctx, "error": str(r["main_exc"])[:200]},
            )
        if r["stdout"] not in ("", NOTICE):
            cs.violation("update-callback-stdout", {"kind": "callback-stdout", "reply": name.split(":")[0], "from_thread": True}, {**ctx, "stdout": r["stdout"][:200]})
        elif r["stdout"] == NOTICE:
            cs.count("notice_in_schedules")
        ja = r["join_args"]
        if len(ja) != 1 or ja[0] is None or not (0 < ja[0] <= 1.0):
            cs.violation("join-not-bounded-by-one-second", {"kind": "join-timeout", "args": [str(x) for x in ja]}, ctx)
        if r["daemon"] is not True:
            cs.violation("checker-thread-not-daemon", {"kind": "daemon-flag"}, ctx)
    _lg.verbose_logging = False
    _mods["jump"] = 0.0
    cs.count("distinct_schedule_traces", len(traces))
    for t in traces:
        cs.cls("sched", name, hash(t) % 10**9)
    cs.count("reply:" + name.split(":")[0])
    cs.sample({"reply": name, "steps_T": nT - 2, "steps_M": nM - 2, "interleavings_possible": total, "run": len(scheds), "distinct_traces": len(traces), "exhaustive": exhaustive})


def finish(acc):
    s = _srv.get("s")
    if s:
        s.stop()
    band = acc["counters"].get("timing_band_inconclusive", 0)
    runs = acc["counters"].get("sweep_runs", 0)
    if band > max(2, 0.15 * runs):
        acc["harness_errors"].append({"case": "timing", "trace": f"{band} of {runs} sweep runs ended in the inconclusive timing band (2.5 s < extra <= 10 s)"})
