"""C03 — verification reports every discrepancy and never a false one.

Oracle: the fault classes injected by the harness itself (altered / removed / added / benign) determine the exit code
and the paths that must be named; no tool code involved.  Observed: exit code and stdout+stderr of verify, diff, create,
each run on its own copy of the post-mutation tree."""
import os
import re
import shutil

from .. import classify, drive, hist, world
from ..oracle import ignoreref

TECHNIQUE = 'runtime monitoring: fault injection into sealed trees, exit-code and output oracle for verify / diff / create on copies of the mutated tree'
LEVEL = "exploration"
RULE = (
    "case = sealed history (1-5 generations on monotonically growing content, changing format sets, optional -i patterns, "
    "0-2 nested histories created child-first or parent-first) x mutation set (0-3 of: alter a recorded file by "
    "flip/append/truncate/replace, remove a recorded file or empty directory, add a file (also one whose path differs only in case from a recorded one), benign: touch / edit / add / "
    "remove ignored files) x {verify, diff, create}; class = (nesting, generations, fault-class set, command, exit code)"
)
ASSUMPTIONS = [
    "new directories are not judged (tool documents a TODO; statement speaks of files)",
    "for combined faults the code must be non-zero and among the codes of the classes present; 11 whenever an alteration is present (verify/create)",
]
MIN_DECIDING = {"judged:verify": 50, "judged:diff": 50, "judged:create": 50, "paths_checked": 30}

PATS = ["*.tmp", "*.bak", "Thumbs.db", "cache"]


def budget(tier):
    return {"cases": 5000, "seconds": 55} if tier == "quick" else {"cases": 120000, "seconds": 600}


def _lines(text):
    return text.split("\n")


def _named(res, rel, cls):
    ls = _lines(res.text)
    if cls == "altered":
        return any("mismatch" in l and rel in l for l in ls)
    if cls == "added":
        return any("found new file" in l and l.rstrip("\n").endswith(rel) for l in ls)
    if cls == "removed":
        return any(l == "  " + rel for l in ls)
    return True


def run_case(cs):
    rng = cs.rng
    tree = world.gen_tree(rng, max_files=rng.choice([1, 4, 9]), max_dirs=rng.choice([0, 2, 4]), min_files=0)
    if rng.random() < 0.04:
        par = rng.choice([""] + [k for k, v in tree.items() if v is None])
        tree[(par + "/" if par else "") + "big-clip.mov"] = rng.randbytes((1 << 20) * rng.randint(1, 2) + rng.randint(1, 5000))
        cs.count("trees_with_a_file_over_1MiB")
    d = cs.dir()
    root = os.path.join(d, world.root_name(rng))
    world.write_tree(root, tree)
    os.makedirs(root, exist_ok=True)
    subdirs = [x for x in tree if tree[x] is None]
    nested = rng.sample(subdirs, min(len(subdirs), rng.choice([0, 0, 0, 1, 2])))
    # siblings whose names merely start with the name of a nested history's folder (routing must respect path components)
    for n in nested:
        if rng.random() < 0.5:
            for suffix, data in ((".txt", b"sib" + rng.randbytes(3)), ("_B", None), (" 2", None)):
                rel = n + suffix
                if rel not in tree and rng.random() < 0.6:
                    tree[rel] = data
                    if data is None:
                        os.makedirs(os.path.join(root, rel), exist_ok=True)
                        tree[rel + "/inner.bin"] = b"in" + rng.randbytes(3)
                        with open(os.path.join(root, rel, "inner.bin"), "wb") as f:
                            f.write(tree[rel + "/inner.bin"])
                    else:
                        with open(os.path.join(root, rel), "wb") as f:
                            f.write(data)
    child_first = rng.random() < 0.5
    patterns = rng.sample(PATS, rng.choice([0, 0, 1, 2]))
    plain_dirs = [x for x in subdirs if "/" not in x and re.match(r"^[A-Za-z0-9_.][A-Za-z0-9_.-]*$", x) and x not in nested]
    if plain_dirs and rng.random() < 0.3:
        patterns.append(rng.choice(plain_dirs) + "/")  # a folder pattern, possibly arriving after the folder was recorded
    pat_at = rng.randint(1, 2)
    gens = rng.randint(1, 5)
    if nested and child_first and rng.random() < 0.35:
        gens = 0  # only the nested histories exist; the enclosing folder is sealed for the first time after the mutation
    steps = []

    def ignored(rel):
        return ignoreref.match(ignoreref.DEFAULTS + active, rel)

    active = []

    def seal_children():
        for n in nested:
            r = drive.run("create", [os.path.join(root, n)] + world.fmt_args(world.gen_formats(rng)))
            steps.append(f"create-child {n!r} => {r.exit}")
            _expect_zero(cs, r, "create-child", steps)

    if child_first:
        seal_children()
    for g in range(1, gens + 1):
        extra = []
        if patterns and g == pat_at:
            for p in patterns:
                extra += ["-i", p]
            active = list(patterns)
            # some fodder that the patterns exclude
            for n in rng.sample(["a.tmp", "b.bak", "Thumbs.db", "cache"], 2):
                par = rng.choice([""] + [x for x in tree if tree[x] is None])
                rel = (par + "/" if par else "") + n
                if rel not in tree:
                    tree[rel] = b"ignored" + rng.randbytes(3)
                    with open(os.path.join(root, rel), "wb") as f:
                        f.write(tree[rel])
        if rng.random() < 0.25:
            extra.append("-n")
        fm = world.gen_formats(rng)
        r = drive.run("create", [root] + world.fmt_args(fm) + extra)
        steps.append(f"create g{g} {fm} {extra} => {r.exit}")
        if not _expect_zero(cs, r, "create", steps):
            return
        if g == 1 and not child_first:
            seal_children()
        if g < gens:
            for _ in range(rng.randint(0, 2)):  # growth only
                world.mutate(rng, root, tree, "add_file")
    # ---------------- mutations
    ondisk = world.read_tree(root)
    rec_files = sorted(k for k, v in ondisk.items() if v is not None and ignored(k) is False)
    rec_dirs = sorted(k for k, v in ondisk.items() if v is None and ignored(k) is False)
    # after the last generation a recorded file may exist that was added after the last seal? no: growth happens before a seal
    kinds = rng.sample(["altered", "removed", "added", "benign", "benign"], rng.choice([0, 1, 1, 1, 2, 3]))
    if gens == 0:
        # only faults inside the nested histories count here: make sure there is one
        inside0 = [f for f in rec_files if any(f.startswith(n + "/") for n in nested)]
        if inside0:
            rec_files = inside0
            rec_dirs = [x for x in rec_dirs if any(x.startswith(n + "/") for n in nested)]
            kinds = [rng.choice(["removed", "altered"])] + [k for k in kinds if k == "benign"]
    affected = {"altered": [], "removed": [], "added": []}
    muts = []
    for k in kinds:
        if k == "altered":
            cand = [f for f in rec_files if f not in affected["removed"] and f not in affected["altered"]]
            if not cand:
                continue
            f = rng.choice(cand)
            bigc = [x for x in cand if os.path.basename(x) == "big-clip.mov"]
            if bigc and rng.random() < 0.7:
                f = bigc[0]
            data = ondisk[f]
            how = rng.choice(["flip", "append", "truncate", "replace"]) if data else "append"
            if len(data) > (1 << 20) and rng.random() < 0.7:
                how = rng.choice(["tail-flip", "append", "tail-cut"])
                cs.count("altered_in_tail_of_big_file")
            twins = [g for g in rec_files if g != f and ondisk.get(g) is not None and ondisk[g] != data and g not in affected["removed"] and g not in affected["altered"] and not os.path.islink(os.path.join(root, g)) and not os.path.islink(os.path.join(root, f))]
            if twins and rng.random() < 0.12:
                # the file is replaced by a second name (hard link) of another recorded file: its content is now that
                # file's content
                g = rng.choice(twins)
                os.remove(os.path.join(root, f))
                os.link(os.path.join(root, g), os.path.join(root, f))
                affected["altered"].append(f)
                muts.append(f"hardlink {f!r} => {g!r}")
                cs.count("altered_by_hard_link_to_other_file")
                continue
            b = bytearray(data)
            if how == "tail-flip":
                b[-1 - rng.randrange(min(len(b), 900))] ^= 1 << rng.randrange(8)
            elif how == "tail-cut":
                b = b[: len(b) - rng.randint(1, 900)]
            elif how == "flip":
                b[rng.randrange(len(b))] ^= 1 << rng.randrange(8)
            elif how == "append":
                b += rng.randbytes(rng.randint(1, 5))
            elif how == "truncate":
                b = b[: rng.randrange(len(b))]
            else:
                nb = bytearray(rng.randbytes(len(b)))
                if nb == b:
                    nb[0] ^= 1
                b = nb
            p = os.path.join(root, f)
            st = os.stat(p)
            with open(p, "wb") as fh:
                fh.write(bytes(b))
            if rng.random() < 0.5:
                os.utime(p, ns=(st.st_atime_ns, st.st_mtime_ns))
            affected["altered"].append(f)
            muts.append(f"{how} {f!r}")
            if nested and rng.random() < 0.35:
                # a new file in another history of the tree whose path inside *that* history reads like the altered
                # file's path inside its own (root/clip.mov altered, root/A001/clip.mov new)
                own = world.owner(f, ["."] + list(nested))
                rel_in = f if own == "." else f[len(own) + 1 :]
                others = [h2 for h2 in ["."] + list(nested) if h2 != own]
                h2 = rng.choice(others)
                tgt = rel_in if h2 == "." else h2 + "/" + rel_in
                tp = os.path.join(root, tgt)
                if not os.path.lexists(tp) and ignored(tgt) is False and world.owner(tgt, ["."] + list(nested)) == h2 and all(
                    ignored(tgt.rsplit("/", k)[0]) is False for k in range(1, tgt.count("/") + 1)
                ):
                    try:
                        os.makedirs(os.path.dirname(tp), exist_ok=True)
                        with open(tp, "wb") as fh:
                            fh.write(world.gen_bytes(rng))
                        affected["added"].append(tgt)
                        muts.append(f"add namesake {tgt!r}")
                        cs.count("new_file_named_like_altered_file_of_other_history")
                    except OSError:
                        pass
        elif k == "removed":
            files = [f for f in rec_files if f not in affected["altered"] and f not in affected["removed"]]
            edirs = [x for x in rec_dirs if not os.listdir(os.path.join(root, x))]
            if edirs and (not files or rng.random() < 0.3):
                x = rng.choice(edirs)
                os.rmdir(os.path.join(root, x))
                rec_dirs.remove(x)
                affected["removed"].append(x)
                muts.append(f"rmdir {x!r}")
            elif files:
                f = rng.choice(files)
                os.remove(os.path.join(root, f))
                affected["removed"].append(f)
                muts.append(f"rm {f!r}")
                if rng.random() < 0.25:
                    # an empty folder takes the name of the removed file: the recorded file is gone all the same
                    os.mkdir(os.path.join(root, f))
                    muts.append(f"mkdir {f!r}")
                    cs.count("removed_file_replaced_by_empty_folder")
        elif k == "added":
            par = rng.choice([""] + [x for x in rec_dirs if os.path.isdir(os.path.join(root, x))])
            n = world.gen_name(rng, rng.choice(["plain", "space", "uni", "xml", "zsep"]), ext=False) + ".new"
            rel = (par + "/" if par else "") + n
            twin = None
            if rec_files and rng.random() < 0.25:
                # a new file whose path differs from a recorded one only in case (copy of it, or other content)
                twin = rng.choice(rec_files)
                sw = os.path.basename(twin).swapcase()
                rel = (os.path.dirname(twin) + "/" if os.path.dirname(twin) else "") + sw
                if rel == twin:
                    continue
                cs.count("added_case_variant_of_recorded_file")
            if os.path.lexists(os.path.join(root, rel)) or ignored(rel) is not False or not os.path.isdir(os.path.dirname(os.path.join(root, rel))):
                continue
            with open(os.path.join(root, rel), "wb") as fh:
                if twin is not None and rng.random() < 0.5 and os.path.isfile(os.path.join(root, twin)):
                    with open(os.path.join(root, twin), "rb") as src:
                        fh.write(src.read())
                else:
                    fh.write(world.gen_bytes(rng))
            affected["added"].append(rel)
            muts.append(f"add {rel!r}")
        else:
            how = rng.choice(["touch", "touch", "edit-ignored", "add-ignored", "rm-ignored"])
            ign = sorted(k2 for k2, v in ondisk.items() if v is not None and ignored(k2) is True and os.path.exists(os.path.join(root, k2)))
            if how == "touch" or (how != "add-ignored" and not ign):
                cand = [x for x in rec_files + rec_dirs if os.path.exists(os.path.join(root, x))] + ["."]
                x = rng.choice(cand)
                t = rng.randint(978307200, 1893456000)
                os.utime(os.path.join(root, x), (t, t))
                muts.append(f"touch {x!r}")
            elif how == "edit-ignored":
                with open(os.path.join(root, rng.choice(ign)), "ab") as fh:
                    fh.write(b"!")
                muts.append("edit-ignored")
            elif how == "rm-ignored":
                os.remove(os.path.join(root, rng.choice(ign)))
                muts.append("rm-ignored")
            else:
                par = rng.choice([""] + [x for x in rec_dirs if os.path.isdir(os.path.join(root, x))])
                rel = (par + "/" if par else "") + rng.choice([".DS_Store"] + (["n.tmp", "n.bak"] if active else []))
                if ignored(rel) is True and not os.path.exists(os.path.join(root, rel)):
                    with open(os.path.join(root, rel), "wb") as fh:
                        fh.write(b"ign")
                    muts.append(f"add-ignored {rel!r}")
    classes = sorted(k for k, v in affected.items() if v)
    # a removed directory takes no recorded file with it (only empty ones are removed)
    if gens == 0:
        # files outside the nested histories were never recorded: faults there are not faults
        inside = lambda p: any(p == n or p.startswith(n + "/") for n in nested)
        for c in ("altered", "removed"):
            affected[c] = [p for p in affected[c] if inside(p) and p not in nested]
        affected["added"] = []
        classes = sorted(k for k, v in affected.items() if v)
        cs.count("root_never_sealed_cases")
    for cmd in ("verify", "diff", "create"):
        if gens == 0 and cmd != "create":
            continue  # verify / diff answer 30 (no history at the root yet)
        work = os.path.join(d, "copy-" + cmd)
        # cp -a keeps two names of one file (hard links) two names of one file in the copy, copytree would split them
        import subprocess

        if subprocess.run(["cp", "-a", root, work]).returncode != 0:
            shutil.rmtree(work, ignore_errors=True)
            shutil.copytree(root, work, symlinks=True)
        if cmd == "create":
            r = drive.run("create", [work] + world.fmt_args(world.gen_formats(rng)) + (["-n"] if rng.random() < 0.3 else []))
        else:
            r = drive.run(cmd, [work])
        shutil.rmtree(work, ignore_errors=True)
        cs.evaluated()
        cs.count("judged:" + cmd)
        relevant = [c for c in classes if not (cmd == "diff" and c == "altered") and not (cmd == "create" and c == "added")]
        codes = {"altered": 11, "removed": 10, "added": 21}
        allowed = {codes[c] for c in relevant} or {0}
        if "altered" in relevant:
            allowed = {11}
        cs.cls("nested%d" % len(nested), "g%d" % gens, "+".join(classes) or "none", cmd, r.exit)
        cs.count("faults:" + ("+".join(classes) or "none"))
        ctx = {"steps": steps, "mutations": muts, "classes": classes, "cmd": cmd, "nested": nested, "patterns": active}
        if r.internal:
            cs.violation(classify.internal_key(r), classify.internal_sig(r, cmd), {**ctx, **r.brief()})
            continue
        if r.exit not in allowed:
            key = "wrong-exit"
            if cmd == "verify" and r.exit == 20:
                key = "verify-20-when-no-file-met"
            elif not relevant:
                key = "false-alarm-on-unchanged"
            elif r.exit == 0:
                key = "discrepancy-missed"
            cs.violation(
                key,
                {"kind": key, "cmd": cmd, "faults": relevant, "exit": r.exit, "allowed": sorted(allowed), "nested": bool(nested)},
                {**ctx, "out": r.text[-600:]},
            )
            continue
        for c in relevant:
            # with several fault classes a command may stop reporting lower priority ones only through its exit code;
            # every affected path must still be named
            for rel in affected[c]:
                cs.count("paths_checked")
                if not _named(r, rel, c):
                    cs.violation(
                        "affected-path-not-named",
                        {"kind": "path-not-named", "cmd": cmd, "fault": c, "nested": bool(nested)},
                        {**ctx, "path": rel, "out": r.text[-800:]},
                    )
    cs.sample({"steps": steps, "mutations": muts, "classes": classes})


def _expect_zero(cs, r, what, steps):
    cs.evaluated()
    cs.count("judged:seal")
    if r.internal:
        cs.violation(classify.internal_key(r), classify.internal_sig(r, what), {"steps": steps, **r.brief()})
        return False
    if r.exit != 0:
        cs.violation(
            "false-alarm-on-unchanged",
            {"kind": "false-alarm-on-unchanged", "cmd": what, "faults": [], "exit": r.exit, "allowed": [0], "nested": what == "create-child"},
            {"steps": steps, "out": r.text[-600:]},
        )
        return False
    return True
