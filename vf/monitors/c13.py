"""C13 — results do not depend on where the tree is mounted or how the OS lists it.

Oracle: byte equality with a baseline run (plain location, sorted listing) of the same command sequence on a byte-identical
tree under the same injected clock / host name; mtimes re-normalised before every command.  Observed: every file under
every ascmhl folder for each location / listing variant; exit code of verify on relocated sealed copies."""
import os
import shutil

from .. import classify, clock, drive, hist, listing, world

SPELLING = False  # this monitor controls the spelling of path arguments itself
TECHNIQUE = 'runtime monitoring: byte-for-byte differential runs across root locations, path spellings and seeded permutations of os.listdir/os.scandir under an injected clock'
LEVEL = "exploration"
RULE = (
    "case = tree (flat or with 1-4 sibling / chained child histories) sealed by the same command sequence at a baseline "
    "location and at 3-5 variants drawn from {parent named ascmhl, parent matching a -i pattern, deep parent, non-ASCII / "
    "spaced parent, trailing slash, doubled trailing separators, relative invocation 'root' | './root/' | '.' | '..' from a sub folder, ROOT/sub/.., permuted OS listing (seeded)}; class = "
    "(variant class, nested, distinct listing permutation observed)"
)
ASSUMPTIONS = [
    "mounts on other file systems are represented through path text and enumeration order only",
    "identical clock/host are injected (I5); mtimes are normalised with os.utime bottom-up before every command",
]
MIN_DECIDING = {"variants_compared": 100, "files_byte_compared": 300, "relocated_verify": 50, "listing_distinct_orders": 20}

NOW = 1_700_000_000
MT = 1_600_000_000


def budget(tier):
    return {"cases": 1600, "seconds": 55} if tier == "quick" else {"cases": 24000, "seconds": 600}


def _seal(root, tree_src, seq, root_arg=None, cwd=None, lseed=None, keep_links=False):
    """copy the media tree to `root`, run the command sequence; returns (exit codes, {rel: bytes} of all ascmhl files).
    keep_links: two names of one file (hard links) stay that in the copy; otherwise every name gets its own file."""
    os.makedirs(os.path.dirname(root), exist_ok=True)
    if keep_links:
        import subprocess

        subprocess.run(["cp", "-a", tree_src, root], check=True)
    else:
        shutil.copytree(tree_src, root)
    exits = []
    res = None
    for sub, argv_tail in seq:
        if sub == "@mv":
            for a, b in argv_tail:
                os.makedirs(os.path.dirname(os.path.join(root, b)), exist_ok=True)
                os.rename(os.path.join(root, a), os.path.join(root, b))
            continue
        world.set_mtimes(root, fixed=MT)
        clock.freeze(NOW)
        listing.set_seed(lseed)
        if sub == ".":
            res = drive.run("create", [root_arg or root] + argv_tail, cwd=cwd)
        else:
            res = drive.run("create", [os.path.join(root, sub)] + argv_tail)
        listing.set_seed(None)
        exits.append(res.exit)
        if res.internal:
            break
    files = {}
    for h, fl in hist.listing(root).items():
        for n, data in fl.items():
            files[(h, n)] = data
    return exits, files, res


def run_case(cs):
    rng = cs.rng
    nested_kind = rng.choice(["flat", "flat", "siblings", "siblings", "chain"])
    tree = world.gen_tree(rng, max_files=rng.choice([3, 7]), max_dirs=rng.choice([0, 2]), classes=["plain", "plain", "space", "uni", "punct"])
    kids = []
    if nested_kind == "siblings":
        for i in range(rng.randint(3, 4)):
            k = rng.choice(["c", "C", "k", "Z", "b", "a"]) + str(i) + world.gen_name(rng, "plain", ext=False)
            tree[k] = None
            tree[k + "/f.bin"] = rng.randbytes(5)
            kids.append(k)
    elif nested_kind == "chain":
        tree["K"] = None
        tree["K/a.bin"] = b"a"
        tree["K/L"] = None
        tree["K/L/b.bin"] = b"b"
        tree["M"] = None
        tree["M/c.bin"] = b"c"
        kids = ["K/L", "K", "M"]
    if rng.random() < 0.4:
        # siblings that differ only in case: a case-insensitive or unstable ordering shows up under listing permutations
        stem = world.gen_name(rng, "plain", ext=False)
        par = rng.choice([""] + [k + "/" for k, v in tree.items() if v is None])
        for nm in {stem.lower() + ".mov", stem.upper() + ".mov", stem.capitalize() + ".MOV"}:
            tree[par + nm] = rng.randbytes(4)
    if rng.random() < 0.25:
        # two names that are canonically equivalent but different byte strings (composed / decomposed)
        par = rng.choice([""] + [k + "/" for k, v in tree.items() if v is None])
        tree[par + "Caf\u00e9 clip.mov"] = rng.randbytes(4)
        tree[par + "Cafe\u0301 clip.mov"] = rng.randbytes(5)
    dup_names = []
    if rng.random() < 0.15:
        # identical copies of one file under several names (camera card duplicates, the same slate in every reel)
        data = b"same" + rng.randbytes(6)
        for i in range(rng.randint(2, 4)):
            nm = rng.choice(["", "", "dup dir/"]) + "copy%d-%s.bin" % (i, world.gen_name(rng, "plain", ext=False))
            if nm not in tree:
                if "/" in nm:
                    tree["dup dir"] = None
                tree[nm] = data
                dup_names.append(nm)
    # fodder that user patterns would match
    pats = rng.sample(["*.tmp", "scratch*", "[xy]*"], rng.choice([0, 1, 1, 2]))
    if pats and rng.random() < 0.7:
        tree["zz.tmp"] = b"t"
    d = cs.dir()
    if rng.random() < 0.1:
        # a backup of an absolute path inside the tree: the folder chain below "backup" repeats the full path of the
        # baseline root (and of the plain variant), as `cp --parents` or rsync -R leave it behind
        for where in (os.path.join(d, "vf-base", "root"), os.path.join(d, "v0", "p", "root")):
            chain = "backup" + where
            parts = chain.split("/")
            for i in range(1, len(parts) + 1):
                tree.setdefault("/".join(parts[:i]), None)
            tree[chain + "/f.txt"] = b"mirrored" + rng.randbytes(2)
        cs.count("trees_repeating_their_own_absolute_path")
    src = os.path.join(d, "src", "root")
    world.write_tree(src, tree)
    os.makedirs(src, exist_ok=True)
    hard_links = False
    if rng.random() < 0.12:
        # a second name for one of the files (de-duplicated copies): the baseline keeps it as a hard link, the other
        # locations hold plain copies - the same names, contents and modification times
        fl = sorted(k for k, v in tree.items() if v is not None)
        if fl:
            srcf = rng.choice(fl)
            dst = os.path.join(os.path.dirname(srcf), "zz-second-name-" + os.path.basename(srcf)[:20])
            if dst not in tree:
                os.link(os.path.join(src, srcf), os.path.join(src, dst))
                tree[dst] = tree[srcf]
                hard_links = True
                cs.count("trees_with_hard_links_at_the_baseline_only")
    fm = world.gen_formats(rng)
    seq = [(k, ["-h", "md5"]) for k in kids]
    tail = world.fmt_args(fm) + [x for p in pats for x in ("-i", p)]
    seq.append((".", tail))
    if rng.random() < 0.4:
        seq.append((".", world.fmt_args(world.gen_formats(rng))))
    if dup_names:
        # the copies are given other names, then a generation with rename detection: which former path each of them
        # gets must not depend on where the tree lies
        seq.append(("@mv", [(a, "moved-%d-" % i + os.path.basename(a) if i % 2 else "zz new folder/" + os.path.basename(a) + ".renamed") for i, a in enumerate(dup_names)]))
        seq.append((".", ["-dr"] + world.fmt_args(fm)))
        cs.count("sequences_with_rename_detection_over_identical_files")
    base_root = os.path.join(d, "vf-base", "root")
    bex, bfiles, bres = _seal(base_root, src, seq, keep_links=hard_links)
    if bres.internal or any(e != 0 for e in bex):
        cs.evaluated()
        cs.violation(classify.internal_key(bres) if bres.internal else "baseline-create-nonzero", {"kind": "baseline-failed", "exits": bex, "exc": bres.exc_class}, bres.brief())
        return
    # the product location class x invocation form x listing order is sampled (a seeded change may need two of them together)
    variants = []
    for _ in range(rng.randint(3, 5)):
        loc = rng.choice(["plain", "asc-parent", "pattern-parent", "deep", "unicode-parent", "symlink-parent", "bracket-parent", "very-deep", "nonutf8-parent"])
        form = rng.choice(["abs", "abs", "slash", "rel-root", "rel-dot-slash", "rel-dot", "slashes", "dotdot", "rel-dotdot"])
        lst = rng.choice(["sorted", "permuted"])
        if (loc, form, lst) == ("plain", "abs", "sorted"):
            lst = "permuted"
        variants.append((loc, form, lst))
    for vi, (loc, form, lst) in enumerate(variants):
        root_arg = None
        cwd = None
        lseed = None
        if loc == "pattern-parent" and not pats:
            loc = "asc-parent"
        if loc == "asc-parent":
            root = os.path.join(d, "v%d" % vi, "ascmhl", "root")
        elif loc == "pattern-parent":
            pn = {"*.tmp": "mount.tmp", "scratch*": "scratch disk", "[xy]*": "xvolume"}[pats[0]]
            root = os.path.join(d, "v%d" % vi, pn, "root")
        elif loc == "symlink-parent":
            os.makedirs(os.path.join(d, "v%d" % vi, "real volume"))
            os.symlink(os.path.join(d, "v%d" % vi, "real volume"), os.path.join(d, "v%d" % vi, "mnt"))
            root = os.path.join(d, "v%d" % vi, "mnt", "root")
        elif loc == "bracket-parent":
            root = os.path.join(d, "v%d" % vi, rng.choice(["Reel [A001]", "[abc]", "Day [1-3] {x,y}", "what?*"]), "root")
        elif loc == "deep":
            root = os.path.join(d, "v%d" % vi, "a", "b b", "c", "d", "root")
        elif loc == "nonutf8-parent":
            # a volume / folder name in a legacy encoding: bytes that are not UTF-8
            root = os.path.join(d, "v%d" % vi, os.fsdecode(rng.choice([b"vol_\xff\xfe", b"Aufnahme \xe4\xf6", b"\x80clips"])), "root")
        elif loc == "very-deep":
            # more than twenty folders above the root (mounted volume / project / date / card / copy ...)
            root = os.path.join(d, "v%d" % vi, *["L%02d" % i for i in range(rng.randint(14, 22))], "root")
        elif loc == "unicode-parent":
            root = os.path.join(d, "v%d" % vi, "Volume \u65e5\u672c \u00e4", "root")
        else:
            root = os.path.join(d, "v%d" % vi, "p", "root")
        if form == "slash":
            root_arg = root + "/"
        elif form == "rel-root":
            root_arg, cwd = "root", os.path.dirname(root)
        elif form == "rel-dot-slash":
            root_arg, cwd = "./root/", os.path.dirname(root)
        elif form == "rel-dot":
            root_arg, cwd = ".", root
        elif form == "slashes":
            root_arg = root + rng.choice(["//", "///", "/.//"])
        elif form in ("dotdot", "rel-dotdot"):
            # the root reached through one of its own sub folders: ROOT/sub/.. or `..` from inside ROOT/sub
            subs = sorted(k for k, v in tree.items() if v is None and "/" not in k and not k.startswith("-"))
            if not subs:
                form = "abs"
            elif form == "dotdot":
                root_arg = root + "/" + rng.choice(subs) + "/.."
            else:
                root_arg, cwd = "..", os.path.join(root, rng.choice(subs))
        if lst == "permuted":
            lseed = rng.randint(1, 10**6)
        v = loc + "/" + form + ("/listing" if lseed is not None else "")
        os.makedirs(os.path.dirname(root), exist_ok=True)
        if cwd and cwd == root:
            # cwd must exist before the copy: seal() copies first, so pre-create is not possible; handle by copying here
            pass
        before_orders = listing.stats()["distinct_orders"]
        try:
            ex, files, res = _seal_variant(root, src, seq, root_arg, cwd, lseed)
        finally:
            listing.set_seed(None)
        if lseed is not None:
            cs.count("listing_distinct_orders", listing.stats()["distinct_orders"] - before_orders)
        cs.evaluated()
        cs.count("variants_compared")
        cs.count("loc:" + loc)
        cs.count("form:" + form)
        cs.count("listing:" + lst)
        cs.cls(v, nested_kind, "pats%d" % len(pats))
        ctx = {"variant": v, "root": root[len(d) :], "root_arg": root_arg, "seq": [(s, a) for s, a in seq], "nested": nested_kind, "kids": kids}
        if res.internal:
            cs.violation(classify.internal_key(res), classify.internal_sig(res, "create"), {**ctx, **res.brief()})
            continue
        if ex != bex:
            cs.violation("exit-code-depends-on-location", {"kind": "exit-differs", "variant": v}, {**ctx, "exits": ex, "baseline": bex})
            continue
        if set(files) != set(bfiles):
            cs.violation("ignore-absolute-path" if loc in ("asc-parent", "pattern-parent") and not (set(files) - set(bfiles)) else "file-set-depends-on-location", {"kind": "fileset-differs", "variant": v}, {**ctx, "only_here": sorted(set(files) - set(bfiles))[:4], "only_base": sorted(set(bfiles) - set(files))[:4]})
            continue
        for k in sorted(files):
            cs.count("files_byte_compared")
            if files[k] != bfiles[k]:
                a, b = files[k].decode("utf-8", "replace"), bfiles[k].decode("utf-8", "replace")
                al, bl = a.split("\n"), b.split("\n")
                diffl = [(x, y) for x, y in zip(al, bl) if x != y][:3]
                key = "bytes-depend-on-location" if lseed is None else "bytes-depend-on-listing-order"
                sig = {"kind": "bytes-differ", "variant": "listing" if lseed is not None else v, "file": "chain" if k[1].endswith(".xml") else "manifest", "same_lines_reordered": sorted(al) == sorted(bl), "fewer_records": len(al) < len(bl)}
                if sig["same_lines_reordered"] and "hashlistreference" in a and lseed is not None:
                    key = "child-history-order"
                elif sig["fewer_records"] and loc in ("asc-parent", "pattern-parent"):
                    key = "ignore-absolute-path"
                cs.violation(key, sig, {**ctx, "file": list(k), "first_diffs": diffl})
                break
        shutil.rmtree(os.path.join(d, "v%d" % vi), ignore_errors=True)
    # ---- relocated sealed copies verify with exit 0
    for vi, parent in enumerate(rng.sample(["moved", "ascmhl", "mount.tmp", "x y/z", "ü", "Reel [A001]", "[abc]"], 2)):
        dst = os.path.join(d, "r%d" % vi, parent, "root")
        os.makedirs(os.path.dirname(dst))
        shutil.copytree(base_root, dst, symlinks=True)
        if rng.random() < 0.3:
            listing.set_seed(rng.randint(1, 10**6))
        r = drive.run("verify", [dst])
        listing.set_seed(None)
        cs.evaluated()
        cs.count("relocated_verify")
        cs.cls("relocated", parent, nested_kind)
        if r.internal:
            cs.violation(classify.internal_key(r), classify.internal_sig(r, "verify"), r.brief())
        elif r.exit != 0:
            key = "relocated-copy-does-not-verify"
            if parent in ("ascmhl", "mount.tmp"):
                key = "ignore-absolute-path"
            cs.violation(key, {"kind": "relocated-verify", "exit": r.exit, "parent_matches_pattern": parent in ("ascmhl", "mount.tmp")}, {"parent": parent, "out": r.text[-400:], "patterns": pats})
        shutil.rmtree(os.path.join(d, "r%d" % vi), ignore_errors=True)
    cs.sample({"nested": nested_kind, "kids": kids, "variants": variants, "patterns": pats, "formats": fm})


def _seal_variant(root, src, seq, root_arg, cwd, lseed):
    if cwd is not None and cwd == root:
        # '.' from inside: the copy must exist before chdir
        os.makedirs(os.path.dirname(root), exist_ok=True)
        shutil.copytree(src, root)
        exits = []
        res = None
        for sub, tail in seq:
            if sub == "@mv":
                for a, b in tail:
                    os.makedirs(os.path.dirname(os.path.join(root, b)), exist_ok=True)
                    os.rename(os.path.join(root, a), os.path.join(root, b))
                continue
            world.set_mtimes(root, fixed=MT)
            clock.freeze(NOW)
            listing.set_seed(lseed)
            if sub == ".":
                res = drive.run("create", ["."] + tail, cwd=root)
            else:
                res = drive.run("create", [os.path.join(".", sub)] + tail, cwd=root)
            listing.set_seed(None)
            exits.append(res.exit)
            if res.internal:
                break
        files = {}
        for h, fl in hist.listing(root).items():
            for n, data in fl.items():
                files[(h, n)] = data
        return exits, files, res
    return _seal(root, src, seq, root_arg, cwd, lseed)


def extra_coverage(merged):
    return {"distinct_listing_orders_handed_out": merged["counters"].get("listing_distinct_orders", 0)}
