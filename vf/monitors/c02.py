"""C02 — a sealed generation records exactly the tree that is on disk.

Oracle: on-disk walk filtered by the reference ignore matcher (O5), records attributed to the deepest enclosing history,
digests from O1; manifests read with the independent reader (O3).  Observed: every manifest the run newly wrote."""
import os

from .. import classify, drive, hist, world
from ..oracle import ignoreref, refhash, xmlread

TECHNIQUE = 'runtime monitoring: reference-model oracle (on-disk walk + independent ignore matcher + independent XML reader) over every manifest written by generated create runs'
LEVEL = "exploration"
RULE = (
    "case = random tree (names with spaces / non-ASCII / XML-special / separators, empty files and directories, depth<=4) x "
    "prior history (0-3 generations, nested histories, edits in between) x final create (format set, -n, -i, or -sf selection); "
    "class = (mode, name classes present, nesting, prior generations, option class); non-trivial = at least one record expected"
)
ASSUMPTIONS = ["trees <= 16 files / 6 directories / depth 4; -sf folders holding files matched by non-default patterns are generated but not judged"]
MIN_DECIDING = {"records_compared": 100, "manifests_read": 20}

PATTERN_POOL = ["*.tmp", "*.bak", "Thumbs.db", "?x.dat", "[qz]*", "skipme"]


def budget(tier):
    return {"cases": 4000, "seconds": 50} if tier == "quick" else {"cases": 160000, "seconds": 600}


def _abs_ok(p):
    return not (p.startswith("/") or p == ".." or p.startswith("../") or "/../" in p or p.endswith("/.."))


def run_case(cs):
    rng = cs.rng
    tree = world.gen_tree(rng, max_files=rng.choice([3, 8, 16]), max_dirs=rng.choice([0, 2, 6]))
    # sprinkle pattern fodder and always-ignored names
    dirs = [""] + [d for d in tree if tree[d] is None]
    for n in rng.sample(["a.tmp", "b.bak", "Thumbs.db", "ax.dat", "qfile", "skipme", ".DS_Store"], rng.randint(0, 3)):
        par = rng.choice(dirs)
        tree[(par + "/" if par else "") + n] = world.gen_bytes(rng)
    huge = cs.seed_str.endswith(":0") or (cs.tier == "thorough" and rng.random() < 0.0005)
    if huge:
        for i in range(4100 + rng.randint(0, 200)):
            tree["huge/%02d/%05d.dat" % (i % 37, i)] = bytes([i % 256])
        for j in range(37):
            tree["huge/%02d" % j] = None
        tree["huge"] = None
        cs.count("huge_trees_over_4096_records")
    if rng.random() < 0.04:
        # a file longer than any read buffer and not a multiple of it
        dirs2 = [""] + [x for x in tree if tree[x] is None]
        par = rng.choice(dirs2)
        tree[(par + "/" if par else "") + "clip-%d.mov" % rng.randint(0, 99)] = rng.randbytes(rng.choice([(1 << 20) + 1, (1 << 20) + 4097, 3 * (1 << 20) + 12345, (2 << 20) - 1]))
        cs.count("trees_with_a_file_over_1MiB")
    big = rng.random() < 0.03
    if big:
        # a manifest of well over 32 KiB (long names, many records)
        for i in range(rng.randint(90, 220)):
            tree["bulk/%03d-%s" % (i, world.gen_name(rng, rng.choice(["long", "uni", "space"])))] = bytes([i % 256]) * (i % 5)
        tree["bulk"] = None
        cs.count("big_trees")
    d = cs.dir()
    root = os.path.join(d, world.root_name(rng, "R "))
    world.write_tree(root, tree)
    subdirs = [x for x in tree if tree[x] is None]
    nested = rng.sample(subdirs, min(len(subdirs), rng.choice([0, 0, 1, 2])))
    # siblings whose names merely start with the name of a nested history's folder (routing must respect path components)
    for n in nested:
        if rng.random() < 0.5:
            for suffix, data in ((".txt", b"sib" + rng.randbytes(3)), ("_B", None), (" 2", None)):
                rel = n + suffix
                if rel not in tree and rng.random() < 0.6:
                    tree[rel] = data
                    if data is None:
                        os.makedirs(os.path.join(root, rel), exist_ok=True)
                        tree[rel + "/inner.bin"] = b"in" + rng.randbytes(3)
                        with open(os.path.join(root, rel, "inner.bin"), "wb") as f:
                            f.write(tree[rel + "/inner.bin"])
                    else:
                        with open(os.path.join(root, rel), "wb") as f:
                            f.write(data)
    prior = rng.choice([0, 0, 1, 2, 3])
    altered = set()
    if huge:
        # the record lookup is linear per file: several generations of >4000 records take minutes, which is slow, not hung
        prior = 0
    child_first = rng.random() < 0.5
    steps = []
    # nested histories come into being by sealing the sub folder on its own
    def seal_children():
        for n in nested:
            r = drive.run("create", [os.path.join(root, n)] + world.fmt_args(world.gen_formats(rng)))
            steps.append(("create-child", n, r.exit))
    if child_first:
        seal_children()
    for g in range(prior):
        r = drive.run("create", [root] + world.fmt_args(world.gen_formats(rng)) + (["-n"] if rng.random() < 0.3 else []))
        steps.append(("create", g, r.exit))
        if r.internal:
            cs.skip("prior-create-internal-error")  # other properties judge this
            return
        for _ in range(rng.randint(0, 2)):
            mm = world.mutate(rng, root, tree, rng.choice(["add_file", "add_file", "delete_file", "touch", "flip"]))
            if mm and mm["kind"] == "flip":
                altered.add(mm["path"])  # the final run fails its verification (exit 11) and still records everything
    if not child_first:
        seal_children()
    if rng.random() < 0.25:
        # links to regular files are added after the edit phase (an edit through a link would change its target too)
        os.makedirs(os.path.join(d, "outside"), exist_ok=True)
        t3 = {k: v for k, v in world.read_tree(root).items()}
        if world.add_file_symlinks(rng, root, t3, rng.randint(1, 2), outside=os.path.join(d, "outside")):
            cs.count("trees_with_file_symlinks")
    if rng.random() < 0.08:
        # a link that leads nowhere (its target was deleted or lives on a volume that is not mounted)
        par = rng.choice([""] + [k for k, v in world.read_tree(root).items() if v is None])
        lp = os.path.join(root, par, "broken-link-%d" % rng.randint(0, 9))
        if not os.path.lexists(lp):
            os.symlink(rng.choice(["nowhere", "/nonexistent/volume/clip.mov", "../gone/x"]), lp)
            cs.count("trees_with_broken_links")
    if rng.random() < 0.15:
        os.makedirs(os.path.join(d, "outside"), exist_ok=True)
        if world.add_dir_symlinks(rng, root, {k: v for k, v in world.read_tree(root).items()}, rng.randint(1, 2), outside=os.path.join(d, "outside")):
            cs.count("trees_with_folder_symlinks")
    hists = world.find_histories(root)
    denied = None
    if rng.random() < 0.04:
        # one folder below the root cannot be listed (no permission, I/O error): the run may fail, but a generation that
        # is written anyway must not pass the folder off as empty
        dd = sorted(k for k, v in world.read_tree(root).items() if v is None and os.listdir(os.path.join(root, k)))
        if dd:
            denied = os.path.join(root, rng.choice(dd))
            cs.count("cases_with_unlistable_folder")
    mode = "sf" if rng.random() < 0.3 and any(v is not None for v in tree.values()) else "folder"
    if huge:
        mode, denied = "folder", None  # the one generation of this run that holds more than 4096 records
    formats = world.gen_formats(rng, repeat=True)
    ondisk = world.read_tree(root)
    cwd = None
    if mode == "folder":
        cli_pats = rng.sample(PATTERN_POOL, rng.choice([0, 0, 1, 2]))
        extra = []
        for p in cli_pats:
            extra += ["-i", p]
        if rng.random() < 0.3:
            extra.append("-n")
        prev = hist.latest_patterns(root, ".") if "." in hists else None
        patterns = (prev if prev else list(ignoreref.DEFAULTS)) + cli_pats
        from .. import listing

        listing.deny(denied)
        try:
            r, new, before, after = hist.create(root, formats, extra)
        finally:
            listing.deny(None)
        if denied and r.internal and isinstance(r.exc, PermissionError):
            cs.count("unlistable_folder_run_failed_cleanly")
            if any(n.endswith(".mhl") for names in new.values() for n in names):
                cs.evaluated()
                cs.violation("record-missing", {"kind": "generation-written-although-listing-failed", "mode": mode}, {"steps": steps})
            return
        steps.append(("create-final", extra, r.exit))
        expected = {}
        dontcare = set()
        for rel, data in ondisk.items():
            m = ignoreref.match(patterns, rel)
            if m is True:
                continue
            h = world.owner(rel, hists if hists else ["."])
            key = ("dir" if data is None else "file", world.rel_to(rel, h))
            if m is None:
                dontcare.add((h,) + key)
                continue
            expected.setdefault(h, set()).add(key)
        if "." not in hists:
            hists = ["."] + hists
    else:
        files = sorted(k for k, v in ondisk.items() if v is not None and ignoreref.match(ignoreref.DEFAULTS, k) is False)
        if not files:
            cs.skip("sf-nothing-to-select")
            return
        sel_files = rng.sample(files, min(len(files), rng.choice([1, 1, 2, 3])))
        sel = list(sel_files)
        expected_files = set(sel_files)
        cand_dirs = [k for k, v in ondisk.items() if v is None and ignoreref.match(ignoreref.DEFAULTS, k) is False]
        if cand_dirs and rng.random() < 0.4:
            dsel = rng.choice(cand_dirs)
            under = {k for k in files if k.startswith(dsel + "/")}
            if not (under & expected_files):  # overlapping selections are C11's business
                sel.append(dsel)
                expected_files |= under
        prev = hist.latest_patterns(root, ".") if "." in hists else None
        nondefault = [p for p in (prev or []) if p not in ignoreref.DEFAULTS]
        if nondefault and any(ignoreref.match(nondefault, f) is not False for f in expected_files):
            cs.skip("sf-selection-touches-nondefault-pattern")
            return
        relative = rng.random() < 0.3
        extra = []
        for s in sel:
            extra += ["-sf", s if relative else os.path.join(root, s)]
        cwd = root if relative else None
        r, new, before, after = hist.create(root, formats, extra, cwd=cwd)
        steps.append(("create-sf", sel, r.exit))
        if "." not in hists:
            hists = ["."] + hists
        expected = {}
        dontcare = set()
        for rel in expected_files:
            h = world.owner(rel, hists)
            expected.setdefault(h, set()).add(("file", world.rel_to(rel, h)))
    if r.internal:
        cs.evaluated()
        cs.violation(classify.internal_key(r), classify.internal_sig(r, "create-" + mode), {"steps": steps, **r.brief()})
        return
    if r.exit == 11 and altered:
        cs.count("final_runs_failing_verification")
    elif r.exit not in (0, 10, 30):
        if r.exit in (31, 32, 33) and any(classify.has_linesep(k) for k in list(ondisk) + nested):
            cs.evaluated()
            cs.violation("line-separator-in-text-indented", {"kind": "text-mangled-after-line-separator", "field": "chain-path", "mode": mode}, {"exit": r.exit, "steps": steps})
            return
        cs.skip("final-create-exit-%s" % r.exit)
        return
    # ---- observe
    got = {}
    dups = []
    nrec = 0
    for h, names in new.items():
        for n in names:
            if not n.endswith(".mhl"):
                continue
            m = xmlread.read_manifest_bytes(after[h][n])
            cs.count("manifests_read")
            for rec in m["hashes"]:
                key = (rec["kind"], rec["path"])
                nrec += 1
                if key in got.setdefault(h, set()) or (("file" if rec["kind"] == "dir" else "dir"), rec["path"]) in got[h]:
                    dups.append((h, rec["path"]))
                got[h].add(key)
                if rec["path"] is None or not _abs_ok(rec["path"]):
                    cs.violation("record-path-not-relative", {"kind": "path-form", "mode": mode}, {"path": rec["path"], "history": h})
                if rec["kind"] == "file":
                    rel = rec["path"] if h == "." else h + "/" + rec["path"]
                    data = ondisk.get(rel)
                    ents = hist.file_entries(rec)
                    if data is not None:
                        for f, lst in ents.items():
                            for dg, act in lst:
                                cs.count("digests_compared")
                                if dg != refhash.digest(f, data):
                                    cs.violation("record-digest-wrong", {"kind": "digest", "mode": mode, "format": f}, {"path": rel, "got": dg})
                        for f in set(formats):
                            # (a file whose own verification failed gets no digest in a format it is not yet recorded in)
                            if f not in ents and (r.exit in (0, 10, 30) or rel not in altered):
                                cs.violation("requested-format-missing", {"kind": "format-missing", "mode": mode, "format": f}, {"path": rel, "have": sorted(ents), "steps": steps})
    cs.evaluated()
    cs.count("records_compared", nrec)
    for h in set(expected) | set(got):
        e = expected.get(h, set())
        g = got.get(h, set())
        dc = {(k, p) for (hh, k, p) in dontcare if hh == h}
        missing = sorted(e - g)
        extra_r = sorted(g - e - dc)
        # mechanism: text written after a U+2028/U+2029 got indentation inserted (both sides of the same record)
        mangled = [(x, m) for x in extra_r for m in missing if x[0] == m[0] and classify.linesep_mangled(x[1], m[1])]
        if mangled:
            cs.violation(
                "line-separator-in-text-indented",
                {"kind": "text-mangled-after-line-separator", "field": "path", "mode": mode},
                {"history": h, "written": mangled[0][0][1], "intended": mangled[0][1][1]},
            )
            missing = [m for m in missing if m not in [b for _, b in mangled]]
            extra_r = [x for x in extra_r if x not in [a for a, _ in mangled]]
        if missing:
            cs.violation(
                "record-missing",
                {"kind": "record-missing", "mode": mode, "what": sorted({k for k, _ in missing}), "nested": h != "."},
                {"history": h, "missing": missing[:6], "steps": steps, "argv": r.argv},
            )
        if extra_r:
            cs.violation(
                "record-extra",
                {"kind": "record-extra", "mode": mode, "what": sorted({k for k, _ in extra_r}), "nested": h != "."},
                {"history": h, "extra": extra_r[:6], "steps": steps, "argv": r.argv},
            )
    if dups:
        cs.violation("record-duplicate", {"kind": "record-duplicate", "mode": mode}, {"dups": dups[:5]})
    ncls = sorted({_ncls(k) for k in ondisk})
    if any(expected.values()):
        cs.cls(mode, "+".join(ncls)[:60], "nested%d" % len(nested), "prior%d" % prior, "n" if "-n" in extra else "", "i%d" % extra.count("-i"), "exit%s" % r.exit)
    cs.count("mode:" + mode)
    cs.count("exit:%s" % r.exit)
    for c in ncls:
        cs.count("nameclass:" + c)
    cs.sample({"tree": sorted(ondisk)[:12], "nested": nested, "steps": [list(map(str, s)) for s in steps], "new": new})


def _ncls(rel):
    out = "ascii"
    if any(ord(c) > 127 for c in rel):
        out = "nonascii"
    if any(c in rel for c in "&<>\"'"):
        out = "xmlspecial"
    if " " in rel:
        out = "space" if out == "ascii" else out
    if "\u2028" in rel or "\u2029" in rel:
        out = "linesep"
    return out
