"""C09 — directory-hash verification detects any change anywhere in the tree.

Oracle: the harness knows whether the tree equals what every generation recorded (exit 0 expected) or carries exactly
one injected mutation (exit 12 expected, an ERROR line must name the directory holding the mutation or an ancestor).
Observed: exit code, exception class and ERROR lines of `verify -dh`."""
import os
import shutil
import subprocess

from .. import classify, drive, world

TECHNIQUE = 'runtime monitoring: mutation injection at every depth, exit-code oracle for verify -dh, internal-error monitor'
LEVEL = "exploration"
RULE = (
    "case = sealed tree (flat folder without sub directories | deep | random, 0-2 nested histories sealed with other formats, "
    "1-4 generations with 1-3 formats each, -n generations interleaved) then verify -dh on the unchanged tree and on a copy "
    "with one mutation (content / rename file / rename dir / add file / add dir / remove file / remove empty dir) at a chosen "
    "depth (0 = directly in the root folder); class = (tree shape, nesting, generation pattern, mutation kind, depth, exit)"
)
ASSUMPTIONS = [
    "change detection is asserted only when at least one generation recorded directory hashes; pure -n histories are checked for exit 0 / no internal error",
    "all generations saw the same tree and patterns (as the property is phrased)",
]
MIN_DECIDING = {"unchanged_judged": 50, "mutated_judged": 50, "mutated_at_root": 10}

MUT = ["content", "rename_file", "rename_dir", "add_file", "add_dir", "remove_file", "remove_dir", "rename_equiv"]


def _only_own_pattern_children_named(text, own_pattern, nested):
    """every mismatch line names a nested history that was sealed with its own pattern, a folder above it or one inside it"""
    import re

    tops = set()
    for n in own_pattern:
        parts = n.split("/")
        tops.update("/".join(parts[:i]) for i in range(1, len(parts) + 1))
    for line in text.split("\n"):
        m = re.match(r"^ERROR: (?:content|structure) hash mismatch\s+for (.*?) (?:\(root folder in child history\) )?old ", line)
        if m:
            p = m.group(1)
            inside = any(p.startswith(n + "/") for n in own_pattern)  # a folder of such a history holding a matching file
            if p not in tops and p != "." and not inside and os.path.basename(p) not in {os.path.basename(t) for t in tops}:
                return False
        elif line.startswith("ERROR: ") and "root folder" not in line and "hash mismatch" not in line:
            return False
    return True


def budget(tier):
    return {"cases": 6000, "seconds": 55} if tier == "quick" else {"cases": 200000, "seconds": 600}


def run_case(cs):
    rng = cs.rng
    shape = rng.choice(["flat", "flat", "deep", "random", "random"])
    if shape == "flat":
        tree = world.gen_tree(rng, max_files=5, max_dirs=0, min_files=1)
    elif shape == "deep":
        tree = {}
        p = ""
        for i in range(rng.randint(2, 4)):
            p = (p + "/" if p else "") + "d-" + world.gen_name(rng, rng.choice(["plain", "uni", "space"]), ext=False)
            tree[p] = None
            tree[p + "/f-" + world.gen_name(rng, "plain")] = world.gen_bytes(rng, rng.randint(1, 30))
        tree["f-" + world.gen_name(rng, "plain")] = world.gen_bytes(rng, 9)
    else:
        tree = world.gen_tree(rng, max_files=8, max_dirs=4, min_files=1)
    if rng.random() < 0.3:
        # names whose canonically equivalent spelling is a different byte string
        par = rng.choice([""] + [k + "/" for k, v in tree.items() if v is None])
        tree[par + rng.choice(["Cafe\u0301.mov", "Caf\u00e9.mov", "nin\u0303o.wav"])] = rng.randbytes(6)
    d = cs.dir()
    root = os.path.join(d, world.root_name(rng))
    if rng.random() < 0.05:
        # one file longer than any read buffer and not a multiple of it: a change in its last bytes is a change
        par = rng.choice([""] + [k for k, v in tree.items() if v is None])
        tree[(par + "/" if par else "") + "big-clip.mov"] = rng.randbytes((1 << 20) * rng.randint(1, 2) + rng.randint(1, 5000))
        cs.count("trees_with_a_file_over_1MiB")
    world.write_tree(root, tree)
    if rng.random() < 0.2:
        # a second name for the same file (hard link): every name is an entry of its folder
        fl = sorted(k for k, v in tree.items() if v is not None)
        if fl:
            src = rng.choice(fl)
            par = rng.choice([""] + [k for k, v in tree.items() if v is None])
            dst = (par + "/" if par else "") + "zz-hardlink-of-" + os.path.basename(src)[:30]
            if dst not in tree:
                os.link(os.path.join(root, src), os.path.join(root, dst))
                tree[dst] = tree[src]
                cs.count("trees_with_hard_links")
    subdirs = [x for x in tree if tree[x] is None]
    nested = rng.sample(subdirs, min(len(subdirs), rng.choice([0, 0, 1, 2])))
    child_first = rng.random() < 0.6
    steps = []

    own_pattern = {}
    for n in nested:
        if rng.random() < 0.1:
            # this nested history will be sealed with a pattern of its own that covers one of its files (the file is
            # there from the beginning: the tree never changes)
            with open(os.path.join(root, n, "render-cache.tmp"), "wb") as f:
                f.write(b"tmp" + rng.randbytes(3))
            own_pattern[n] = "*.tmp"
            cs.count("nested_histories_with_own_pattern")

    def seal_children():
        for n in nested:
            fm = world.gen_formats(rng)
            extra = ["-i", own_pattern[n]] if n in own_pattern else []
            r = drive.run("create", [os.path.join(root, n)] + world.fmt_args(fm) + extra)
            steps.append(f"child {n!r} {fm} {extra} => {r.exit}")
            if r.exit != 0:
                return False
        return True

    if child_first and not seal_children():
        cs.skip("child-seal-failed")
        return
    gens = rng.randint(1, 4)
    pure_n = rng.random() < 0.08
    with_hashes = 0
    pattern = ""
    for g in range(gens):
        fm = world.gen_formats(rng)[:3]
        nflag = pure_n or (rng.random() < 0.3 and (with_hashes > 0 or g < gens - 1))
        r = drive.run("create", [root] + world.fmt_args(fm) + (["-n"] if nflag else []))
        steps.append(f"g{g + 1} {fm}{' -n' if nflag else ''} => {r.exit}")
        if r.internal or r.exit != 0:
            cs.skip("seal-failed")  # C03/C04 judge this
            return
        if not nflag:
            with_hashes += 1
        pattern += "n" if nflag else str(len(set(fm)))
        if g == 0 and not child_first:
            if not seal_children():
                cs.skip("child-seal-failed")
                return
            if nested:
                # bring the parent up to date with the now existing child histories (same tree, same patterns)
                r = drive.run("create", [root] + world.fmt_args(fm))
                steps.append(f"g{g + 1}b {fm} => {r.exit}")
                if r.exit != 0:
                    cs.skip("seal-failed")
                    return
                with_hashes += 1
    if with_hashes == 0 and not pure_n:
        # last generation forced to carry hashes unless this is a pure -n case
        fm = world.gen_formats(rng)[:2]
        r = drive.run("create", [root] + world.fmt_args(fm))
        steps.append(f"g+ {fm} => {r.exit}")
        if r.exit != 0:
            cs.skip("seal-failed")
            return
        with_hashes = 1
        pattern += str(len(set(fm)))
    ctx = {"steps": steps, "nested": nested, "shape": shape}
    # ------------- unchanged
    r = drive.run("verify", [root, "-dh"])
    cs.evaluated()
    cs.count("unchanged_judged")
    cs.cls(shape, "nested%d" % len(nested), pattern, "unchanged", r.exit)
    if r.internal:
        cs.violation(classify.internal_key(r), classify.internal_sig(r, "verify-dh"), {**ctx, **r.brief()})
        return
    if r.exit != 0:
        key = "dh-false-alarm-on-unchanged"
        if own_pattern and r.exit == 12 and _only_own_pattern_children_named(r.text, own_pattern, nested):
            # mechanism: a run started at the outer folder walks into the nested history with the outer patterns only, so
            # the file the nested history itself excludes is hashed into that history's directory hashes
            key = "nested-history-own-pattern"
        cs.violation(key, {"kind": "dh-unchanged-nonzero", "exit": r.exit, "nested": bool(nested), "has_n_gen": "n" in pattern}, {**ctx, "own_pattern": own_pattern, "out": r.text[-600:]})
        return
    if own_pattern:
        return  # the mutation phase below models one pattern list for the whole tree
    if pure_n:
        cs.count("pure_n_histories")
        inner = sorted(k for k, v in world.read_tree(root).items() if v is not None and any(k.startswith(n + "/") for n in nested) and not os.path.islink(os.path.join(root, k)))
        if inner and not own_pattern and len(nested) == 1:
            # (with several nested histories in different formats the tool's rule "one format that verifies is enough"
            # decides; only the single nested history is judged here)
            # the outer history never recorded a directory hash (-n only), the nested ones did: a change inside a nested
            # history is a change "with respect to all recorded generations" all the same
            work3 = os.path.join(d, "N")
            subprocess.run(["cp", "-a", root, work3])
            victim = rng.choice(inner)
            with open(os.path.join(work3, victim), "ab") as f:
                f.write(b"!")
            r3 = drive.run("verify", [work3, "-dh"])
            cs.evaluated()
            cs.count("mutated_judged")
            cs.count("pure_n_outer_history_with_hashed_nested_history")
            cs.cls(shape, "nested%d" % len(nested), pattern, "content-in-nested-under-pure-n", r3.exit)
            if r3.internal:
                cs.violation(classify.internal_key(r3), classify.internal_sig(r3, "verify-dh"), {**ctx, **r3.brief()})
            elif r3.exit != 12:
                cs.violation("dh-change-missed", {"kind": "dh-change-missed", "exit": r3.exit, "mutation": "content", "depth0": False, "nested": True, "outer_pure_n": True}, {**ctx, "victim": victim, "out": r3.text[-300:]})
            shutil.rmtree(work3, ignore_errors=True)
        return
    if rng.random() < 0.15:
        # change the tree, seal it again in a format already used, then verify -dh: the tree differs from what the
        # older generations recorded ("with respect to all recorded generations"), so the answer is 12
        work2 = os.path.join(d, "G")
        shutil.copytree(root, work2, symlinks=True)
        with open(os.path.join(work2, "zz-later-addition.bin"), "wb") as f:
            f.write(b"later" + rng.randbytes(3))
        ms0 = world.manifests(work2)
        import vf.hist as _h
        from ..oracle import xmlread as _x
        used = []
        for n in ms0:
            m0 = _x.read_manifest(os.path.join(work2, "ascmhl", n))
            rh0 = m0["processinfo"]["roothash"]
            if rh0:
                used += [c[0] for c in rh0["content"]]
        if used:
            f_again = rng.choice(sorted(set(used)))
            r = drive.run("create", [work2, "-h", f_again])
            if r.exit == 0:
                r = drive.run("verify", [work2, "-dh"])
                cs.evaluated()
                cs.count("changed_between_generations_judged")
                cs.cls(shape, "changed-between-generations", f_again, r.exit)
                if r.internal:
                    cs.violation(classify.internal_key(r), classify.internal_sig(r, "verify-dh"), {**ctx, **r.brief()})
                elif r.exit != 12:
                    cs.violation("dh-older-generation-not-compared", {"kind": "dh-older-generation", "exit": r.exit, "format_repeated": True}, {**ctx, "format": f_again, "out": r.text[-500:]})
        shutil.rmtree(work2, ignore_errors=True)
    # ------------- one mutation on a copy
    work = os.path.join(d, "M")
    shutil.copytree(root, work, symlinks=True)
    ondisk = world.read_tree(work)
    files = sorted(k for k, v in ondisk.items() if v is not None and "/.DS_Store" not in "/" + k)
    dirs = sorted(k for k, v in ondisk.items() if v is None)
    at_root = rng.random() < 0.4
    kind = rng.choice(MUT)
    where = None

    def pick(cands):
        hl = [x for x in cands if os.path.basename(x).startswith("zz-hardlink-of-")]
        if hl and rng.random() < 0.7:
            return rng.choice(hl)
        c = [x for x in cands if ("/" not in x) == at_root] or cands
        return rng.choice(c) if c else None

    if kind == "content":
        where = pick(files)
        big = [x for x in files if os.path.basename(x) == "big-clip.mov"]
        if big and rng.random() < 0.7:
            where = big[0]
        if where:
            pth = os.path.join(work, where)
            if os.path.getsize(pth) > (1 << 20) and rng.random() < 0.6:
                # only the last byte of the big file
                with open(pth, "r+b") as f:
                    f.seek(-1, 2)
                    b0 = f.read(1)
                    f.seek(-1, 2)
                    f.write(bytes([b0[0] ^ 1]))
                cs.count("content_changed_in_tail_of_big_file")
            else:
                with open(pth, "ab") as f:
                    f.write(b"!")
    elif kind == "rename_file":
        where = pick(files)
        if where:
            os.rename(os.path.join(work, where), os.path.join(work, where + ".renamed"))
    elif kind == "rename_dir":
        where = pick(dirs)
        if where:
            os.rename(os.path.join(work, where), os.path.join(work, where + "-renamed"))
    elif kind == "rename_equiv":
        import unicodedata

        cand = [x for x in files + dirs if unicodedata.normalize("NFC", os.path.basename(x)) != unicodedata.normalize("NFD", os.path.basename(x))]
        where = pick(cand) if cand else None
        if where:
            b = os.path.basename(where)
            nb = unicodedata.normalize("NFC", b) if unicodedata.normalize("NFC", b) != b else unicodedata.normalize("NFD", b)
            os.rename(os.path.join(work, where), os.path.join(work, os.path.dirname(where), nb))
    elif kind == "remove_file":
        where = pick(files)
        if where:
            os.remove(os.path.join(work, where))
    elif kind == "remove_dir":
        where = pick([x for x in dirs if not os.listdir(os.path.join(work, x))])
        if where:
            os.rmdir(os.path.join(work, where))
    else:
        par = "" if at_root or not dirs else rng.choice(dirs)
        where = (par + "/" if par else "") + "zz-added-" + world.gen_name(rng, rng.choice(["plain", "uni"]), ext=False)
        if rng.random() < 0.2:
            # names close to the ones that are always left out (ascmhl, .DS_Store): these are ordinary entries
            nm = rng.choice([".ascmhl", "_ascmhl", "__ascmhl", "._ascmhl", "ascmhl_", "xascmhl", "ascmhl.bak", ".DS_Store_", "_.DS_Store", "Ascmhl"])
            if not os.path.lexists(os.path.join(work, par, nm)):
                where = (par + "/" if par else "") + nm
                cs.count("added_near_miss_of_reserved_name")
        if kind == "add_file":
            with open(os.path.join(work, where), "wb") as f:
                f.write(world.gen_bytes(rng))
        else:
            os.mkdir(os.path.join(work, where))
    if not where:
        cs.skip("mutation-not-applicable")
        shutil.rmtree(work, ignore_errors=True)
        return
    depth = where.count("/")
    dh_args = ["-dh"]
    if rng.random() < 0.3:
        # an explicit format that is recorded in the root hashes of the root history (any generation)
        from ..oracle import xmlread as _xr

        rec_fmts = []
        for n in world.manifests(work):
            rh = _xr.read_manifest(os.path.join(work, "ascmhl", n))["processinfo"]["roothash"]
            if rh:
                rec_fmts.append({c[0] for c in rh["content"]})
        if rec_fmts:
            dh_args += ["-h", rng.choice(sorted(set.union(*rec_fmts)))]
            cs.count("dh_with_explicit_recorded_format")
    r = drive.run("verify", [work] + dh_args)
    shutil.rmtree(work, ignore_errors=True)
    cs.evaluated()
    cs.count("mutated_judged")
    cs.count("mut:" + kind)
    if depth == 0:
        cs.count("mutated_at_root")
    cs.cls(shape, "nested%d" % len(nested), pattern, kind, "d%d" % min(depth, 3), r.exit)
    ctx.update({"mutation": kind, "where": where})
    if r.internal:
        cs.violation(classify.internal_key(r), classify.internal_sig(r, "verify-dh"), {**ctx, **r.brief()})
        return
    if r.exit != 12:
        key = "dh-change-missed"
        if depth == 0 and r.exit == 0:
            key = "dh-root-mismatch-not-counted"
        cs.violation(key, {"kind": "dh-change-missed", "exit": r.exit, "mutation": kind, "depth0": depth == 0, "nested": bool(nested)}, {**ctx, "out": r.text[-700:]})
        return
    anc = ["."]
    p = os.path.dirname(where)
    while p:
        anc.append(p)
        p = os.path.dirname(p)
    named = any("mismatch" in l and any((" for " + a + " ") in l or (" for " + a + " (root") in l for a in anc) for l in r.text.split("\n"))
    cs.count("error_lines_checked")
    if not named:
        cs.violation("dh-error-names-no-ancestor", {"kind": "dh-error-lines", "mutation": kind}, {**ctx, "ancestors": anc, "out": r.text[-700:]})
    cs.sample({"shape": shape, "steps": steps, "mutation": kind, "where": where, "exit": r.exit})
