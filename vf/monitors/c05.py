"""C05 — any change to a chained manifest is detected before anything else happens.

Oracle: the harness damages exactly one chained manifest (or removes one manifest / one chain file) and knows the dedicated
exit code (31 modified, 33 manifest missing, 32 chain missing); the tree must stay byte-identical (I2) and no mutating audit
event may occur (I1).  Observed: exit code, snapshot diff and audit events of every history-reading command."""
import os
import shutil

from .. import audit, classify, drive, hist, snap, world

TECHNIQUE = 'runtime monitoring: fault enumeration over every chained manifest x edit kind x command, with snapshot differ and audit-hook monitor for writes'
LEVEL = "fault_enumeration"
RULE = (
    "scenario = history with 1-5 generations and 0-3 nested histories (depth<=3); faults = every manifest of every history x "
    "edit kinds {flip bit at offset 0 / last byte / random offset, insert byte, delete byte, truncate to 0, truncate to half, "
    "append newline, one CR before one LF, LF->CRLF conversion, remove file, overwrite with another generation's bytes, move into a sub folder of ascmhl, edit while a pristine copy sits in a sub folder of ascmhl} plus removal of every chain file; each fault is followed by all eight commands (create, "
    "create -sf, verify, verify -dh, diff, info, info -sf, flatten); quick samples 3 edit kinds per manifest, thorough runs all; "
    "class = (command, edit kind, generation position first/middle/last, nesting depth of the damaged history)"
)
ASSUMPTIONS = [
    "a command must refuse iff the damaged history is the one it loads or nested below it; info -sf without root loads the nearest enclosing history of the file",
    "byte offsets are sampled (first, last, random); edits that leave the bytes identical are discarded",
]
MIN_DECIDING = {"fault_command_pairs": 500, "faults_injected": 60}

EDITS = ["flip0", "fliplast", "fliprand", "insert", "delete", "trunc0", "trunchalf", "appendnl", "remove", "rollback", "moved", "shadowed", "cr1", "crlf"]
CMDS = ["create", "create-sf", "verify", "verify-dh", "diff", "info", "info-sf", "flatten"]


def budget(tier):
    return {"cases": 48, "seconds": 55} if tier == "quick" else {"cases": 3000, "seconds": 600}


def _edit(rng, data, kind):
    b = bytearray(data)
    if kind == "flip0":
        b[0] ^= 1 << rng.randrange(8)
    elif kind == "fliplast":
        b[-1] ^= 1 << rng.randrange(8)
    elif kind == "fliprand":
        b[rng.randrange(len(b))] ^= 1 << rng.randrange(8)
    elif kind == "insert":
        b.insert(rng.randrange(len(b) + 1), rng.randrange(256))
    elif kind == "delete":
        del b[rng.randrange(len(b))]
    elif kind == "trunc0":
        b = bytearray()
    elif kind == "trunchalf":
        b = b[: len(b) // 2]
    elif kind == "appendnl":
        b += b"\n"
    elif kind == "cr1":
        # one carriage return in front of one line feed (what a text-mode transfer does to every line)
        lf = [i for i, c in enumerate(b) if c == 10]
        if lf:
            b.insert(rng.choice(lf), 13)
    elif kind == "crlf":
        b = bytearray(bytes(b).replace(b"\r\n", b"\n").replace(b"\n", b"\r\n"))
    return bytes(b)


def run_case(cs):
    rng = cs.rng
    d = cs.dir()
    area = os.path.join(d, "area")
    root = os.path.join(area, world.root_name(rng, "root"))
    dest = os.path.join(area, "dest")
    skel = rng.choice([[], [], ["K"], ["K", "K/L"], ["K", "K/L", "K/L/M"], ["A", "B"], ["A", "A_proxy"], ["A", "A 2/M"]])
    # the folders that carry nested histories get names from several classes (hidden, blanks, non-ASCII, dots)
    ren = {n: rng.choice([n, n, "." + n.lower(), n + " x", n + "\u00e4", n + ".", n + "._" + n]) for n in ["K", "L", "M", "A", "B"]}
    if all(c in ren for s in skel for c in s.split("/")):
        skel = ["/".join(ren[c] for c in s.split("/")) for s in skel]
    else:
        cs.count("scenarios_with_prefix_named_sibling_histories")
    tree = {s: None for s in skel}
    tree["plain"] = None
    for s in [""] + list(tree):
        for i in range(rng.randint(1, 2)):
            tree[(s + "/" if s else "") + "f%d.bin" % i] = rng.randbytes(rng.randint(1, 30))
    world.write_tree(root, tree)
    order = list(skel)
    rng.shuffle(order)
    for s in order:
        drive.run("create", [os.path.join(root, s), "-h", rng.choice(world.FORMATS)])
    long_history = rng.random() < 0.2
    for g in range(rng.randint(10, 12) if long_history else rng.randint(1, 5)):
        r = drive.run("create", [root] + world.fmt_args(world.gen_formats(rng)[:2] if not long_history else ["md5"]))
        if r.exit != 0:
            cs.skip("setup-create-failed")
            return
        if rng.random() < 0.3:
            nm = "added%d.bin" % g
            with open(os.path.join(root, nm), "wb") as f:
                f.write(rng.randbytes(5))
    tops = sorted({s.split("/")[0] for s in skel})
    if tops and rng.random() < 0.25:
        # the outer history is told to leave the folder of a nested history alone (proxies, caches): the pattern is
        # recorded, the nested history is still part of the tree and its chain is still checked
        ig = rng.choice(tops)
        r = drive.run("create", [root, "-h", "md5", "-i", ig + rng.choice(["/", ""])])
        if r.exit != 0:
            cs.skip("setup-create-failed")
            return
        cs.count("scenarios_where_outer_history_ignores_folder_of_nested_history")
    unchained = set()
    if rng.random() < 0.2:
        # a run that died after its manifest was in place and before the chain file was replaced (orphan manifest), then
        # complete runs: the chain of the root history has a gap in its sequence numbers from here on
        cp = os.path.join(root, "ascmhl", "ascmhl_chain.xml")
        with open(cp, "rb") as f:
            keep = f.read()
        before_names = set(world.manifests(root, "."))
        r = drive.run("create", [root, "-h", "md5"])
        if r.exit == 0:
            with open(cp, "wb") as f:
                f.write(keep)
            unchained = {("." , n) for n in set(world.manifests(root, ".")) - before_names}
            for _ in range(rng.randint(1, 2)):
                drive.run("create", [root, "-h", "md5"])
            cs.count("scenarios_with_gap_in_chain")
    hists = world.find_histories(root)
    files = sorted(k for k, v in world.read_tree(root).items() if v is not None)
    pristine = os.path.join(d, "pristine")
    shutil.copytree(area, pristine, symlinks=True)
    faults = []
    for h in hists:
        ms = world.manifests(root, h)
        for i, name in enumerate(ms):
            if (h, name) in unchained:
                continue  # not listed in the chain: the statement says nothing about it
            pos = "first" if i == 0 else "last" if i == len(ms) - 1 else "gen>=10" if i >= 9 else "middle"
            kinds = EDITS if cs.tier == "thorough" and not long_history else rng.sample(EDITS, 1 if long_history and 0 < i < len(ms) - 1 and i != 9 else 3)
            for k in kinds:
                faults.append((h, name, k, pos if len(ms) > 1 else "only"))
        faults.append((h, "ascmhl_chain.xml", "remove", "chain"))
    cs.count("scenarios")
    cs.count("manifests_in_scenarios", sum(len(world.manifests(root, h)) for h in hists))
    for h, name, kind, pos in faults:
        p = os.path.join(hist.asc_dir(root, h), name)
        with open(p, "rb") as f:
            orig = f.read()
        st = os.stat(p)
        sub = None
        if kind in ("moved", "shadowed"):
            # a sub folder inside the ascmhl folder ("archive", "backup") holding a file named like the chained manifest
            sub = os.path.join(hist.asc_dir(root, h), rng.choice(["archive", "backup", "old", ".trash"]))
        if kind == "remove":
            os.remove(p)
            want = 32 if name == "ascmhl_chain.xml" else 33
        elif kind == "moved":
            os.makedirs(sub, exist_ok=True)
            os.rename(p, os.path.join(sub, name))
            new = None
            want = 33
        else:
            if kind == "rollback":
                # overwritten with the exact bytes of another generation that the same chain lists
                others = [n2 for n2 in world.manifests(root, h) if n2 != name]
                if not others:
                    continue
                with open(os.path.join(hist.asc_dir(root, h), rng.choice(others)), "rb") as f2:
                    new = f2.read()
            elif kind == "shadowed":
                os.makedirs(sub, exist_ok=True)
                shutil.copy2(p, os.path.join(sub, name))
                new = _edit(rng, orig, rng.choice(["fliprand", "appendnl", "insert"]))
            else:
                new = _edit(rng, orig, kind)
            if new == orig:
                if sub:
                    shutil.rmtree(sub, ignore_errors=True)
                continue
            with open(p, "wb") as f:
                f.write(new)
            os.utime(p, ns=(st.st_atime_ns, st.st_mtime_ns))
            want = 31
        cs.count("faults_injected")
        hdepth = 0 if h == "." else h.count("/") + 1
        for cmd in CMDS:
            target_file = None
            if cmd == "create":
                argv = [root, "-h", rng.choice(world.FORMATS)]
            elif cmd == "create-sf":
                argv = [root, "-sf", os.path.join(root, rng.choice(files))]
            elif cmd == "verify":
                argv = [root]
            elif cmd == "verify-dh":
                argv = [root, "-dh"]
            elif cmd == "diff":
                argv = [root]
            elif cmd == "info":
                argv = [root]
            elif cmd == "info-sf":
                target_file = rng.choice(files)
                argv = ["-sf", os.path.join(root, target_file)]
                if rng.random() < 0.4:
                    argv.append(root)
            else:
                argv = [root, dest]
            # scope: which history does the command load?
            loaded = "."
            if cmd == "info-sf" and len(argv) == 2:
                loaded = world.owner(target_file, hists)
            in_scope = loaded == "." or h == loaded or h.startswith(loaded + "/")
            before = snap.snap(area)
            with audit.record() as ev:
                r = drive.run(cmd.split("-")[0] if cmd not in ("verify-dh",) else "verify", argv)
            after = snap.snap(area)
            cs.evaluated()
            cs.count("fault_command_pairs")
            ctx = {"history": h, "file": name, "edit": kind, "cmd": cmd, "argv": [a.replace(d, "") for a in r.argv], "loaded": loaded, "histories": hists}
            if not in_scope:
                cs.count("out_of_scope_pairs")
                if r.internal:
                    cs.violation(classify.internal_key(r), classify.internal_sig(r, cmd), {**ctx, **r.brief()})
                continue
            cs.cls(cmd, kind, pos, "depth%d" % hdepth)
            df = snap.diff(before, after)
            muts = audit.fs_mutations(ev.events)
            if r.internal:
                cs.violation(
                    "tampered-history-internal-error",
                    {"kind": "internal-error", "cmd": cmd, "exc": r.exc_class, "where": drive.exc_where(r.exc), "edit": kind, "nested": hdepth > 0},
                    {**ctx, **r.brief()},
                )
            elif r.exit != want:
                cs.violation(
                    "tamper-not-refused" if r.exit in (0, 10, 11, 12, 20, 21) else "tamper-wrong-exit-code",
                    {"kind": "tamper-exit", "cmd": cmd, "exit": r.exit, "want": want, "edit": kind if kind in ("remove", "moved") else "modify", "nested": hdepth > 0, "position": pos},
                    {**ctx, "out": r.text[-300:]},
                )
            if muts or not snap.empty(df):
                cs.violation(
                    "refused-command-wrote",
                    {"kind": "tamper-writes", "cmd": cmd, "audit": bool(muts), "snapshot": not snap.empty(df)},
                    {**ctx, "events": [list(map(str, m[:3])) for m in muts[:3]], "diff": {"added": df["added"][:3], "changed": list(df["changed"])[:3], "removed": df["removed"][:3]}},
                )
                shutil.rmtree(area)
                shutil.copytree(pristine, area, symlinks=True)
                if kind == "remove":
                    os.remove(p)
                elif kind == "moved":
                    os.makedirs(sub, exist_ok=True)
                    os.rename(p, os.path.join(sub, name))
                else:
                    if kind == "shadowed":
                        os.makedirs(sub, exist_ok=True)
                        shutil.copy2(p, os.path.join(sub, name))
                    with open(p, "wb") as f:
                        f.write(new)
        # restore
        if sub:
            shutil.rmtree(sub, ignore_errors=True)
        with open(p, "wb") as f:
            f.write(orig)
        os.utime(p, ns=(st.st_atime_ns, st.st_mtime_ns))
        if os.path.isdir(dest):
            shutil.rmtree(dest)
    # ---- tampering *while* a create run is in progress (after it has loaded and checked the history, before it commits):
    # the run may or may not notice, but it must not launder the change: later commands still refuse with 31
    if rng.random() < 0.5:
        _tamper_during_create(cs, rng, d, area, root, dest, hists, files, unchained)
    cs.sample({"histories": hists, "faults": len(faults), "skeleton": skel})


def _tamper_during_create(cs, rng, d, area, root, dest, hists, files, unchained=()):
    import ascmhl.hashlist_xml_parser as HX

    h = rng.choice(hists)
    ms = [n for n in world.manifests(root, h) if (h, n) not in unchained]
    if not ms:
        return
    victim = os.path.join(hist.asc_dir(root, h), rng.choice(ms))
    orig_write = HX.write_hash_list
    state = {"done": False}

    def hooked(hash_list, file_path):
        if not state["done"]:
            state["done"] = True
            st = os.stat(victim)
            with open(victim, "ab") as f:
                f.write(b"\n<!-- edited while create was running -->\n")
            os.utime(victim, ns=(st.st_atime_ns, st.st_mtime_ns))
        return orig_write(hash_list, file_path)

    HX.write_hash_list = hooked
    try:
        r0 = drive.run("create", [root, "-h", "md5"])
    finally:
        HX.write_hash_list = orig_write
    if not state["done"]:
        return
    cs.count("tamper_during_create_cases")
    for cmd, argv in (("verify", [root]), ("diff", [root]), ("info", [root]), ("create", [root, "-h", "md5"]), ("flatten", [root, dest])):
        before = snap.snap(area)
        r = drive.run(cmd, argv)
        after = snap.snap(area)
        cs.evaluated()
        cs.count("fault_command_pairs")
        cs.cls(cmd, "during-create", "n/a", "depth%d" % (0 if h == "." else h.count("/") + 1))
        ctx = {"history": h, "file": os.path.basename(victim), "edit": "append-during-create", "cmd": cmd, "create_exit": r0.exit}
        if r.internal:
            cs.violation("tampered-history-internal-error", {"kind": "internal-error", "cmd": cmd, "exc": r.exc_class, "where": drive.exc_where(r.exc), "edit": "during-create", "nested": h != "."}, {**ctx, **r.brief()})
        elif r.exit != 31:
            cs.violation("tamper-not-refused", {"kind": "tamper-exit", "cmd": cmd, "exit": r.exit, "want": 31, "edit": "modify-during-create", "nested": h != ".", "position": "n/a"}, {**ctx, "out": r.text[-300:]})
        if not snap.empty(snap.diff(before, after)):
            cs.violation("refused-command-wrote", {"kind": "tamper-writes", "cmd": cmd, "audit": False, "snapshot": True}, ctx)
            break


def extra_coverage(merged):
    return {"exhaustive_inner_product": "thorough: every manifest x every edit kind x every command per scenario; quick: every manifest x 3 sampled edit kinds x every command"}
