"""C19 — info reports the recorded history truthfully.

Oracle: generations, creation dates and per-file format entries read from the manifests with the independent reader (O3).
Observed: stdout and exit code of `info ROOT` and `info -sf FILE` (root omitted or = nearest enclosing history)."""
import os
import re

from .. import classify, drive, hist, world
from ..oracle import xmlread

TECHNIQUE = 'runtime monitoring: stdout of info parsed and compared with the manifests read independently'
LEVEL = "exploration"
RULE = (
    "case = history with 1-6 generations (changing formats, failed and new-format entries, -sf generations), 0-3 nested "
    "histories up to depth 3 each with their own generations; info ROOT and info -sf for every recorded file (root omitted / "
    "given), plus folders and files without any history; class = (histories, depth, generations bucket, actions present, "
    "root given, exit)"
)
ASSUMPTIONS = ["-sf with a root farther than the nearest enclosing history and renamed files are outside the statement"]
MIN_DECIDING = {"info_root_judged": 100, "info_sf_judged": 300, "no_history_judged": 30}

GEN = re.compile(r"^  Generation (\d+) \((.*)\)$")
GENF = re.compile(r"^  Generation (\d+) \((.*?)\) (\w+): (\S+) \((\w+)\)\s*$")


def budget(tier):
    return {"cases": 900, "seconds": 55} if tier == "quick" else {"cases": 40000, "seconds": 600}


def run_case(cs):
    rng = cs.rng
    d = cs.dir()
    root = os.path.join(d, world.root_name(rng))
    skel = rng.choice([[], ["K"], ["K", "K/L"], ["K", "K/L", "K/L/M"], ["A", "B"], ["A", "B", "A/C"]])
    tree = {}
    for s in skel + ["plain", "plain/deep"]:
        tree[s] = None
    for s in [""] + list(tree):
        for i in range(rng.randint(0, 2)):
            tree[(s + "/" if s else "") + "f%d" % i + world.gen_name(rng, rng.choice(["plain", "space", "uni"]))] = rng.randbytes(rng.randint(1, 20)) + bytes([i])
    if not any(v is not None for v in tree.values()):
        tree["only.bin"] = b"x"
    if skel and rng.random() < 0.4:
        # neighbours of a nested history's folder whose names merely begin like it (K_proxy/, K.txt, K0): they belong
        # to the outer history
        s0 = rng.choice([s for s in skel])
        tree[s0 + "_proxy"] = None
        tree[s0 + "_proxy/p.bin"] = b"proxy" + rng.randbytes(3)
        tree[s0 + ".txt"] = b"notes" + rng.randbytes(3)
        tree[s0 + "0"] = b"zero" + rng.randbytes(3)
        cs.count("files_next_to_nested_history_with_its_name_as_prefix")
    if rng.random() < 0.04:
        for i in range(rng.randint(80, 200)):
            tree["plain/%03d-%s" % (i, world.gen_name(rng, rng.choice(["long", "uni", "space", "plain"])))] = bytes([i % 251]) * (1 + i % 3)
        cs.count("big_histories")
    world.write_tree(root, tree)
    files = sorted(k for k, v in tree.items() if v is not None)
    steps = []
    order = list(skel)
    rng.shuffle(order)
    for s in order:
        for _ in range(rng.randint(1, 2)):
            r = drive.run("create", [os.path.join(root, s)] + world.fmt_args(world.gen_formats(rng)))
            steps.append(f"create {s} => {r.exit}")
    altered = None
    for g in range(rng.randint(1, 6)):
        if g > 0 and rng.random() < 0.3:
            if altered:
                with open(os.path.join(root, altered), "wb") as fh:
                    fh.write(tree[altered])
                altered = None
            else:
                altered = rng.choice(files)
                with open(os.path.join(root, altered), "wb") as fh:
                    fh.write(tree[altered] + b"#")
        extra = []
        if g > 0 and rng.random() < 0.2:
            for f in rng.sample(files, min(len(files), 2)):
                extra += ["-sf", os.path.join(root, f)]
        r = drive.run("create", [root] + world.fmt_args(world.gen_formats(rng)) + extra)
        steps.append(f"create . {'sf' if extra else ''} => {r.exit}")
        if r.internal:
            cs.skip("seal-internal-error")
            return
    nested_now = [h for h in world.find_histories(root) if h != "." and "/" not in h and re.match(r"^[A-Za-z0-9_]+$", h)]
    if nested_now and rng.random() < 0.2:
        # the outer history is told to ignore the folder of a nested history (e.g. proxies): the nested history is still
        # there and `info` on the outer folder still lists it
        ig = rng.choice(nested_now)
        r = drive.run("create", [root, "-h", "md5", "-i", ig + rng.choice(["", "/"])])
        steps.append(f"create . -i {ig} => {r.exit}")
        cs.count("outer_history_ignores_folder_of_nested_history")
    hists = world.find_histories(root)
    if hists == ["."] and rng.random() < 0.1:
        try:
            hist.renumber_flat_history(root, 9998 - len(world.manifests(root)) + rng.randint(0, 1))
            for _ in range(rng.randint(2, 3)):
                drive.run("create", [root, "-h", "md5"])
            cs.count("histories_crossing_9999")
        except RuntimeError:
            pass
    model = {}
    for h in hists:
        ms, _ = hist.load_history(root, h)
        model[h] = ms
    if rng.random() < 0.3:
        # the history is read in another zone than the one it was written in: the dates are reported as written
        from .. import clock

        clock.set_zone(rng.choice(["Asia/Tokyo", "America/Los_Angeles", "UTC", "Asia/Kolkata", "Pacific/Kiritimati", "America/St_Johns"]))
        cs.count("info_in_another_zone")
    # ---------- info ROOT
    verbose = rng.random() < 0.2
    r = drive.run("info", [root] + (["-v"] if verbose else []))
    cs.evaluated()
    cs.count("info_root_judged")
    depth = max([h.count("/") + 1 for h in hists if h != "."] or [0])
    cs.cls("h%d" % len(hists), "d%d" % depth, "g%d" % (len(model["."]) // 3), "v" if verbose else "", r.exit)
    ctx = {"steps": steps, "histories": hists}
    if r.internal:
        cs.violation(classify.internal_key(r), classify.internal_sig(r, "info"), {**ctx, **r.brief()})
    elif r.exit != 0:
        cs.violation("info-nonzero-with-history", {"kind": "info-exit", "exit": r.exit}, {**ctx, "out": r.text[-300:]})
    else:
        # headings of nested histories: "Child History at <path>:" at the start of a line, followed by generation lines (a
        # path may itself contain line feeds, so the heading is taken up to the last ":" before the next generation line)
        out_text = r.out.replace("\r\n", "\n")
        blocks = {".": []}
        cur = "."
        parts = re.split(r"(?:^|(?<=\n))Child History at ", out_text)
        for i2, seg in enumerate(parts):
            if i2 > 0:
                m2 = re.match(r"(.*?):\n(?=  Generation |\n|$)", seg, re.S)
                if not m2:
                    blocks["<unparsable heading>"] = []
                    continue
                cur = os.path.relpath(m2.group(1), root.replace("\r\n", "\n"))
                if cur in blocks:
                    cs.violation("info-child-listed-twice", {"kind": "info-child-dup"}, {**ctx, "child": cur})
                blocks[cur] = []
                seg = seg[m2.end() :]
            blocks[cur] += [(int(m.group(1)), m.group(2)) for m in (GEN.match(line) for line in seg.split("\n")) if m]
        want = {h.replace("\r\n", "\n"): [(no, m["creatorinfo"]["creationdate"]) for no, name, m in model[h]] for h in hists}
        if blocks != want:
            cs.violation(
                "info-generations-differ",
                {
                    "kind": "info-generations",
                    "missing_histories": sorted(set(want) - set(blocks)) != [],
                    "extra_histories": sorted(set(blocks) - set(want)) != [],
                    "order_or_content": any(blocks.get(h) != want[h] for h in want if h in blocks),
                    "depth": depth,
                },
                {**ctx, "got": {k: v[:4] for k, v in blocks.items()}, "want": {k: v[:4] for k, v in want.items()}},
            )
    # ---------- info -sf FILE
    for f in rng.sample(files, min(len(files), 4 if len(files) < 60 else 14)):
        h = world.owner(f, hists)
        rel = world.rel_to(f, h)
        give_root = rng.random() < 0.5
        hroot = root if h == "." else os.path.join(root, h)
        via = root
        if rng.random() < 0.25:
            # the same tree reached through a symbolic link to one of its ancestors (the tree itself holds no links)
            link = os.path.join(d, "link-to-case-dir")
            if not os.path.islink(link):
                os.symlink(d, link)
            via = os.path.join(link, os.path.basename(root))
            hroot = via if h == "." else os.path.join(via, h)
            cs.count("info_sf_via_symlinked_ancestor")
        outer = give_root and h != "." and rng.random() < 0.5
        if outer:
            # the folder given is an enclosing history: the file's records are still those of its nearest history
            hroot = via
            cs.count("info_sf_with_enclosing_root_given")
        argv = ["-sf", os.path.join(via, f)] + ([hroot] if give_root else [])
        r = drive.run("info", argv)
        cs.evaluated()
        cs.count("info_sf_judged")
        want = []
        acts = set()
        for no, name, m in model[h]:
            for rec in m["hashes"]:
                if rec["kind"] == "file" and rec["path"] == rel:
                    for fm, dg, a, _hd in rec["entries"]:
                        want.append((no, m["creatorinfo"]["creationdate"], fm, dg, a))
                        acts.add(a)
        cs.cls("sf", "nested" if h != "." else "root", "+".join(sorted(acts)), "rootgiven" if give_root else "", "symlink" if via != root else "", r.exit)
        c2 = {**ctx, "file": f, "history": h, "root_given": give_root, "enclosing_root_given": outer}
        if r.internal:
            cs.violation(classify.internal_key(r), classify.internal_sig(r, "info-sf"), {**c2, **r.brief()})
            continue
        if r.exit != 0:
            cs.violation("info-sf-nonzero", {"kind": "info-sf-exit", "exit": r.exit, "nested": h != "."}, {**c2, "out": r.text[-300:]})
            continue
        got = []
        for line in r.out.split("\n"):
            m = GENF.match(line)
            if m:
                got.append((int(m.group(1)), m.group(2), m.group(3), m.group(4), m.group(5)))
        if got != want:
            cs.violation(
                "info-sf-lines-differ",
                {"kind": "info-sf-lines", "fewer": len(got) < len(want), "more": len(got) > len(want), "same_multiset": sorted(got) == sorted(want), "nested": h != ".", "enclosing_root_given": outer},
                {**c2, "got": got[:5], "want": want[:5]},
            )
    # ---------- several files of different histories in one call, no folder given: each is looked up in its own history
    by_h = {}
    for f in files:
        by_h.setdefault(world.owner(f, hists), []).append(f)
    if len(by_h) >= 2 and rng.random() < 0.5:
        h1, h2 = rng.sample(sorted(by_h), 2)
        pair = [rng.choice(by_h[h1]), rng.choice(by_h[h2])]
        r = drive.run("info", [x for f in pair for x in ("-sf", os.path.join(root, f))])
        cs.evaluated()
        cs.count("info_sf_files_of_different_histories")
        want = []
        for f in pair:
            h = world.owner(f, hists)
            rel = world.rel_to(f, h)
            for no, name, m in model[h]:
                for rec in m["hashes"]:
                    if rec["kind"] == "file" and rec["path"] == rel:
                        for fm, dg, a, _hd in rec["entries"]:
                            want.append((no, m["creatorinfo"]["creationdate"], fm, dg, a))
        if r.internal or r.exit != 0:
            cs.violation(classify.internal_key(r) if r.internal else "info-sf-nonzero", {"kind": "info-sf-exit", "exit": r.exit, "nested": True, "several_histories": True}, {**ctx, **r.brief()})
        else:
            got = [(int(m.group(1)), m.group(2), m.group(3), m.group(4), m.group(5)) for m in (GENF.match(line) for line in r.out.split("\n")) if m]
            if got != want:
                cs.violation("info-sf-lines-differ", {"kind": "info-sf-lines", "fewer": len(got) < len(want), "more": len(got) > len(want), "same_multiset": sorted(got) == sorted(want), "nested": True, "several_histories": True}, {**ctx, "files": pair, "got": got[:5], "want": want[:5]})
    # ---------- verbose per-file listing: same generation lines (plus details), no internal error
    if files and rng.random() < 0.3:
        f = rng.choice(files)
        h = world.owner(f, hists)
        r = drive.run("info", ["-v", "-sf", os.path.join(root, f)])
        cs.evaluated()
        cs.count("info_sf_verbose_judged")
        if r.internal or r.exit != 0:
            cs.violation(classify.internal_key(r) if r.internal else "info-sf-nonzero", {"kind": "info-sf-exit", "exit": r.exit, "nested": h != ".", "verbose": True}, {**ctx, **r.brief()})
        else:
            rel = world.rel_to(f, h)
            want = []
            for no, name, m in model[h]:
                for rec in m["hashes"]:
                    if rec["kind"] == "file" and rec["path"] == rel:
                        for fm, dg, a, _hd in rec["entries"]:
                            want.append(f"  Generation {no} ({m['creatorinfo']['creationdate']}) {fm}: {dg} ({a})")
            missing = [w for w in want if not any(l.rstrip().startswith(w) for l in r.out.split("\n"))]
            if missing:
                cs.violation("info-sf-lines-differ", {"kind": "info-sf-lines", "fewer": True, "more": False, "verbose": True, "nested": h != "."}, {**ctx, "file": f, "missing": missing[:3]})
    # ---------- big histories: every recorded file of the root history in ONE info invocation (-sf may be repeated)
    if len(files) >= 60:
        mine = [f for f in files if world.owner(f, hists) == "."]
        argv = [x for f in mine for x in ("-sf", os.path.join(root, f))] + [root]
        r = drive.run("info", argv)
        cs.evaluated()
        cs.count("info_sf_bulk_files", len(mine))
        if r.internal or r.exit != 0:
            cs.violation(classify.internal_key(r) if r.internal else "info-sf-nonzero", {"kind": "info-sf-exit", "exit": r.exit, "nested": False, "bulk": True}, {**ctx, **r.brief()})
        else:
            sections = {}
            cur = None
            heads = {f + ":": f for f in mine}
            for line in r.out.split("\n"):
                if line in heads:
                    cur = heads[line]
                    sections[cur] = []
                    continue
                m = GENF.match(line)
                if m and cur is not None:
                    sections[cur].append((int(m.group(1)), m.group(2), m.group(3), m.group(4), m.group(5)))
            bad = []
            for f in mine:
                want = []
                for no, name, m in model["."]:
                    for rec in m["hashes"]:
                        if rec["kind"] == "file" and rec["path"] == f:
                            for fm, dg, a, _hd in rec["entries"]:
                                want.append((no, m["creatorinfo"]["creationdate"], fm, dg, a))
                if sections.get(f, []) != want:
                    bad.append((f, len(sections.get(f, [])), len(want)))
            if bad:
                cs.violation("info-sf-lines-differ", {"kind": "info-sf-lines", "fewer": any(b[1] < b[2] for b in bad), "more": any(b[1] > b[2] for b in bad), "bulk": True, "nested": False}, {**ctx, "files_wrong": bad[:5], "files_total": len(mine)})
    # ---------- no history
    if rng.random() < 0.4:
        bare = os.path.join(d, "bare")
        os.makedirs(os.path.join(bare, "sub"))
        with open(os.path.join(bare, "sub", "x.bin"), "wb") as fh:
            fh.write(b"x")
        if rng.random() < 0.5:
            # histories further down do not make the folder itself a history
            os.makedirs(os.path.join(bare, "sub", "sealed"))
            with open(os.path.join(bare, "sub", "sealed", "y.bin"), "wb") as fh:
                fh.write(b"y")
            drive.run("create", [os.path.join(bare, "sub", "sealed"), "-h", "md5"])
            cs.count("no_history_with_nested_below")
        for argv in ([bare], ["-sf", os.path.join(bare, "sub", "x.bin")]):
            r = drive.run("info", argv)
            cs.evaluated()
            cs.count("no_history_judged")
            cs.cls("nohistory", "sf" if "-sf" in argv else "root", r.exit)
            if r.internal:
                cs.violation(classify.internal_key(r), classify.internal_sig(r, "info-nohistory"), r.brief())
            elif r.exit != 30:
                cs.violation("info-no-history-not-30", {"kind": "info-nohistory", "exit": r.exit, "sf": "-sf" in argv}, {"out": r.text[-300:]})
    cs.sample({"steps": steps, "histories": hists})
