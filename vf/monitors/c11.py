"""C11 — every file the tool writes is valid against the published schemas.

Oracle: lxml.etree.XMLSchema over xsd/ASCMHL.xsd and xsd/ASCMHLDirectory__combined.xsd taken from the working tree,
plus xsdlite (hand-written content-model rules over the independent reader) as second opinion and as source of the
mechanism signature.  Observed: every *.mhl / ascmhl_chain.xml / ascmhl_collection.xml created or changed by any command."""
import os
import re

from lxml import etree

from .. import classify, drive, env, hist, snap, world
from ..oracle import xmlread, xsdlite

TECHNIQUE = 'runtime monitoring: every written file validated with libxml2 XMLSchema and a hand-written content-model checker after every generated command'
LEVEL = "exploration"
RULE = (
    "case = tree (6 % with a folder holding only a name XML 1.0 cannot store) x sequence of 1-4 commands drawn from create (1-6 formats incl. repeats, -n, -dr after renames, -i/-ii, "
    "creator options), create -sf (single, several, folder, overlapping, into deep child), edits causing exit 10/11, flatten; "
    "every file written is validated after every command; class = (file kind, option class, exit code, manifest shape)"
)
ASSUMPTIONS = ["libxml2's XMLSchema implementation is the judge; xsdlite disagreeing with it makes the run inconclusive, not green"]
MIN_DECIDING = {"validated:manifest": 50, "validated:chain": 50, "validated:collection": 1}

_schemas = {}


def budget(tier):
    return {"cases": 8000, "seconds": 50} if tier == "quick" else {"cases": 300000, "seconds": 600}


def init(tier):
    x = os.path.join(env.REPO, "xsd")
    _schemas["manifest"] = etree.XMLSchema(etree.parse(os.path.join(x, "ASCMHL.xsd")))
    _schemas["directory"] = etree.XMLSchema(etree.parse(os.path.join(x, "ASCMHLDirectory__combined.xsd")))


_Q = re.compile(r"'[^']*'")


def _norm(msg):
    return _Q.sub("'…'", msg)[:160]


def validate(cs, path, data, ctx):
    kind = "manifest" if path.endswith(".mhl") else "chain" if path.endswith("ascmhl_chain.xml") else "collection" if path.endswith("ascmhl_collection.xml") else None
    if kind is None:
        return
    cs.evaluated()
    cs.count("validated:" + kind)
    schema = _schemas["manifest" if kind == "manifest" else "directory"]
    try:
        doc = etree.fromstring(data)
    except etree.XMLSyntaxError as e:
        cs.violation("written-file-not-wellformed", {"kind": "not-wellformed", "file": kind}, {"path": path, "error": str(e)[:200], **ctx})
        return
    ok = schema.validate(doc)
    try:
        view = xmlread.read_manifest_bytes(data) if kind == "manifest" else xmlread.read_chain_bytes(data)
        lite = xsdlite.check_manifest(view) if kind == "manifest" else xsdlite.check_chain(view)
    except Exception as e:  # pragma: no cover
        lite = [{"rule": "reader-exception", "got": repr(e)}]
        view = None
    if kind == "manifest" and view:
        shape = []
        if not view["has_hashes"]:
            shape.append("nohashes")
        elif not view["hashes"]:
            shape.append("emptyhashes")
        if view["references"]:
            shape.append("refs")
        if any(h["previousPath"] for h in view["hashes"]):
            shape.append("prev")
        if any(e[2] == "failed" for h in view["hashes"] for e in h["entries"]):
            shape.append("failed")
        if view["processinfo"] and view["processinfo"]["roothash"]:
            shape.append("roothash")
        if view["creatorinfo"] and view["creatorinfo"]["authors"]:
            shape.append("author")
        for s in shape:
            cs.count("shape:" + s)
        cs.cls(kind, ctx.get("optclass"), ctx.get("exit"), "+".join(shape))
    else:
        cs.cls(kind, ctx.get("optclass"), ctx.get("exit"))
    if ok and lite:
        raise RuntimeError(f"xsdlite reports {lite[:2]} but libxml2 validates {path}")
    if not ok:
        msgs = sorted({_norm(e.message) for e in schema.error_log})
        rules = sorted({p["rule"] for p in lite})
        key = "xsd-invalid:" + (rules[0] if rules else "libxml2-only")
        if rules == ["hashes-empty"]:
            key = "empty-hashes-element"
        elif "format-order-or-duplicate" in rules:
            dup = any(len(set(p["got"])) < len(p["got"]) for p in lite if p["rule"] == "format-order-or-duplicate")
            key = "dup-format-overlapping-sf" if dup and ctx.get("overlap") else ("dup-format-in-hash" if dup else "format-order")
        cs.violation(key, {"kind": "xsd-invalid", "file": kind, "rules": rules, "libxml2": msgs[:2]}, {"path": path, "lite": lite[:3], **ctx})


def _creator_opts(rng):
    o = []
    txt = lambda: world.gen_name(rng, rng.choice(["plain", "space", "xml", "uni", "zsep", "punct"]), ext=False)
    if rng.random() < 0.5:
        o += ["--author_name", txt()]
    if rng.random() < 0.4:
        local = rng.choice(["a", "first.last", "x+tag", "ü", "a b", "<x>"])
        dom = rng.choice(["example", "ex-ample", "ö", "sub"])
        tail = rng.choice(["com", "co.uk", "x", "c om", "."])
        o += ["--author_email", f"{local}@{dom}.{tail}"]
    if rng.random() < 0.3:
        o += ["--author_phone", rng.choice(["+1 555 0100", "0", txt()])]
    if rng.random() < 0.3:
        o += ["--author_role", txt()]
    if rng.random() < 0.3:
        o += ["--location", txt()]
    if rng.random() < 0.3:
        o += ["--comment", txt() + " " + txt()]
    return o


def _observe(cs, root, before, ctx, extra_roots=()):
    """validate everything that is new or changed under root (and extra roots) compared with `before` snapshots"""
    for r, b in [(root, before[0])] + list(zip(extra_roots, before[1:])):
        if not os.path.isdir(r):
            continue
        a = snap.snap(r, with_mtime=False)
        for rel in a:
            inside = r != root or os.path.basename(os.path.dirname(rel)) == "ascmhl"
            if inside and a[rel][0] == "f" and (rel not in b or b[rel] != a[rel]):
                with open(os.path.join(r, rel), "rb") as f:
                    validate(cs, os.path.join(r, rel), f.read(), ctx)


def run_case(cs):
    rng = cs.rng
    shape = rng.choice(["normal", "normal", "normal", "empty", "onlydirs", "onlyignored"])
    idx = int(cs.seed_str.rsplit(":", 1)[1])
    if idx < 4 or rng.random() < 0.004:
        shape = "bulk"
    if shape == "bulk":
        # record counts at and around the block sizes a writer may use: files + folders of one generation
        n = [512, 1024, 256, 513][idx] if idx < 4 else rng.choice([255, 256, 257, 511, 512, 513, 1023, 1024, 2048])
        nd = rng.choice([0, 0, 3, 12])
        tree = {"d%02d" % i: None for i in range(nd)}
        for i in range(n - nd):
            tree[("d%02d/" % (i % nd) if nd else "") + "f%04d.bin" % i] = b"%d" % i
        cs.count("trees_with_256_512_1024_records")
    elif shape == "empty":
        tree = {}
    elif shape == "onlydirs":
        tree = {k: v for k, v in world.gen_tree(rng, max_files=0, max_dirs=4).items()}
    elif shape == "onlyignored":
        tree = {".DS_Store": b"x"}
        if rng.random() < 0.5:
            tree["sub"] = None
            tree["sub/.DS_Store"] = b""
    else:
        tree = world.gen_tree(rng, max_files=rng.choice([2, 6, 12]), max_dirs=rng.choice([0, 2, 5]), distinct=rng.random() < 0.5)
    d = cs.dir()
    root = os.path.join(d, world.root_name(rng))
    world.write_tree(root, tree)
    os.makedirs(root, exist_ok=True)
    if rng.random() < 0.5:
        world.set_mtimes(root, rng)  # 2001..2030: zones changed their offsets in that span (e.g. America/Caracas)
    dest = os.path.join(d, "dest")
    if shape == "normal" and rng.random() < 0.2:
        # a chain of nested histories (depth 3) so that -dr, -sf and references act across several levels
        for pth in ("ch", "ch/mid", "ch/mid/in"):
            tree[pth] = None
            tree[pth + "/c.bin"] = pth.encode() + rng.randbytes(3)
        world.write_tree(root, tree)
    subdirs = [x for x in tree if tree[x] is None]
    nested = rng.sample(subdirs, min(len(subdirs), rng.choice([0, 0, 1, 2, 3])))
    unstorable = None
    if rng.random() < 0.06:
        # a name the file system accepts and XML 1.0 cannot store, alone in its folder (all records of a generation)
        os.makedirs(os.path.join(root, "solo"), exist_ok=True)
        tree["solo"] = None
        unstorable = world.add_unstorable_name(rng, root, tree, where="solo")
        if unstorable and rng.random() < 0.5:
            nested.append("solo")
        cs.count("trees_with_name_not_storable_in_xml")
    if "ch/mid/in" in tree:
        nested = list(dict.fromkeys(nested + ["ch/mid/in", "ch/mid", "ch"]))
    for n in sorted(nested, key=lambda s: -s.count("/")) if rng.random() < 0.5 else nested:
        b = [snap.snap(root, with_mtime=False)]
        r = drive.run("create", [os.path.join(root, n)] + world.fmt_args(world.gen_formats(rng)))
        _observe(cs, root, b, {"optclass": "child-seal", "exit": r.exit, "argv": r.argv})
    steps = []
    patfile = None
    for step in range(rng.randint(1, 4)):
        files = sorted(k for k, v in world.read_tree(root).items() if v is not None and "/.DS_Store" not in "/" + k)
        dirs = sorted(k for k, v in world.read_tree(root).items() if v is None)
        kind = rng.choice(["create", "create", "create", "sf", "sf", "edit", "flatten", "dr"])
        if step > 0 and rng.random() < 0.06:
            # a chain file as another implementation may have written it: the sequencenr attribute is optional in the XSD
            import re as _re

            for h in world.find_histories(root):
                cp = os.path.join(root, "" if h == "." else h, "ascmhl", "ascmhl_chain.xml")
                if os.path.isfile(cp) and rng.random() < 0.7:
                    with open(cp, "rb") as f:
                        cb = f.read()
                    with open(cp, "wb") as f:
                        f.write(_re.sub(rb' sequencenr="[0-9]+"', b"", cb))
            steps.append("chains without sequencenr")
            cs.count("chain_files_without_optional_sequencenr")
        b = [snap.snap(root, with_mtime=False), snap.snap(dest, with_mtime=False) if os.path.isdir(dest) else {}]
        ctx = {"overlap": False}
        if kind == "edit":
            t2 = world.read_tree(root)
            for _ in range(rng.randint(1, 2)):
                world.mutate(rng, root, t2, rng.choice(["flip", "append", "delete_file", "add_file", "delete_empty_dir"]))
            steps.append("edit")
            continue
        if kind == "create" or (kind in ("sf", "dr") and not files):
            fm = world.gen_formats(rng, repeat=True)
            opts = []
            oc = ["create", "h%d" % len(fm)]
            if rng.random() < 0.3:
                opts.append("-n")
                oc.append("n")
            if rng.random() < 0.3:
                for p in rng.sample(["*.tmp", "*.bak", "x y", "?a*", "sub/"], rng.randint(1, 2)):
                    opts += ["-i", p]
                oc.append("i")
            if rng.random() < 0.15:
                patfile = os.path.join(d, "patterns.txt")
                with open(patfile, "w") as f:
                    f.write("\n".join(rng.sample(["*.log", "cache", "tmp/", "*.o"], 2)) + "\n")
                opts += ["-ii", patfile]
                oc.append("ii")
            co = _creator_opts(rng)
            if co:
                oc.append("creator")
            r = drive.run("create", [root] + world.fmt_args(fm) + opts + co)
        elif kind == "sf":
            sel = rng.sample(files, min(len(files), rng.choice([1, 1, 2, 3])))
            if unstorable and unstorable in files and rng.random() < 0.6:
                sel = [unstorable]
            oc = ["sf", "n%d" % len(sel)]
            if dirs and rng.random() < 0.5:
                dsel = rng.choice(dirs)
                sel.append(dsel)
                oc.append("folder")
                if any(s.startswith(dsel + "/") for s in sel):
                    ctx["overlap"] = True
            if rng.random() < 0.2:
                sel.append(sel[0])
                ctx["overlap"] = True
            if ctx["overlap"]:
                oc.append("overlap")
            if any(s.startswith(n + "/") for s in sel for n in nested):
                oc.append("intochild")
            a = []
            for s in sel:
                a += ["-sf", os.path.join(root, s)]
            r = drive.run("create", [root] + world.fmt_args(world.gen_formats(rng, repeat=True)) + a + _creator_opts(rng))
        elif kind == "dr":
            # rename some files / move them, then create -dr
            t2 = world.read_tree(root)
            for f in rng.sample(files, min(len(files), rng.randint(1, 3))):
                nd = rng.choice([""] + dirs)
                if rng.random() < 0.3:
                    nd = (nd + "/" if nd else "") + "newdir%d" % step
                    os.makedirs(os.path.join(root, nd), exist_ok=True)
                new = (nd + "/" if nd else "") + world.gen_name(rng, rng.choice(["plain", "space", "uni"]))
                if os.path.exists(os.path.join(root, new)):
                    continue
                os.rename(os.path.join(root, f), os.path.join(root, new))
            oc = ["dr"]
            if dirs and rng.random() < 0.4:
                # rename a folder in place (it may be the root folder of a nested history, at any depth)
                dsel = rng.choice(sorted(dirs, key=lambda x: -x.count("/"))[: max(1, len(dirs) // 2)])
                newd = dsel + "-renamed%d" % step
                if os.path.isdir(os.path.join(root, dsel)) and not os.path.exists(os.path.join(root, newd)):
                    os.rename(os.path.join(root, dsel), os.path.join(root, newd))
                    oc.append("dirrename")
                    if dsel in nested:
                        oc.append("historyroot")
            r = drive.run("create", [root, "-dr"] + world.fmt_args(world.gen_formats(rng)))
        else:
            oc = ["flatten"]
            r = drive.run("flatten", [root, dest] + (["-n"] if rng.random() < 0.3 else []) + _creator_opts(rng))
        steps.append(" ".join(oc) + "=>%s" % r.exit)
        ctx.update({"optclass": "+".join(oc), "exit": r.exit, "argv": r.argv, "steps": list(steps)})
        cs.count("cmd:" + oc[0])
        cs.count("exit:%s" % r.exit)
        if r.internal:
            cs.count("internal_error_seen:" + classify.internal_key(r))
        _observe(cs, root, b, ctx, extra_roots=[dest])
    cs.sample({"shape": shape, "nested": nested, "steps": steps, "tree": sorted(tree)[:8]})
