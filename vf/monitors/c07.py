"""C07 — directory hashes follow the compositional definition.

Oracle: O2 (independent recursive evaluation of the definition over the in-memory tree with O1 digests) and three
metamorphic relations evaluated on the tool's own outputs (in-place rename: content hashes of all ancestors unchanged,
structure hashes changed; content edit: both change on all ancestors; permuted OS listing: nothing changes).
Observed: <directoryhash>/<roothash> values written by create; stdout of `verify -dh -co [-ro] -h F`."""
import os
import re
import shutil

from .. import classify, drive, hist, listing, world
from ..oracle import dirhash, ignoreref, refhash, xmlread

VERBOSITY = False  # stdout of verify -dh -co is parsed / runs must be identical
TECHNIQUE = 'runtime monitoring: reference-model oracle (independent evaluation of the directory-hash definition) plus metamorphic relations (rename, edit, permuted listing) on the tool outputs'
LEVEL = "exploration"
RULE = (
    "case = tree (depth 0-5, empty directories, directories holding only directories, fan-out up to 16, duplicate contents, "
    "ignored entries present, optional nested histories) x format set x {create, verify -dh -co} plus one metamorphic "
    "variant (rename in place | content edit | listing permutation); class = (source, format, tree-shape class, relation)"
)
ASSUMPTIONS = ["O2 encodes the published definition a second time; the metamorphic relations are the specification-independent part"]
MIN_DECIDING = {"dirhash_compared": 200, "metamorphic_pairs": 30, "printed_compared": 50}

DIR_LINE = re.compile(r"^  calculated directory hash for (.*)  (\w+): (\S+) \(content\), (\S+) \(structure\)$", re.S)
ROOT_LINE = re.compile(r"^  calculated root hash  (\w+): (\S+) \(content\), (\S+) \(structure\)$")


def budget(tier):
    return {"cases": 8000, "seconds": 55} if tier == "quick" else {"cases": 300000, "seconds": 600}


def _tree(rng):
    shape = rng.choice(["random", "random", "flat", "wide", "deep", "dirsonly", "empty", "dups"])
    if rng.random() < 0.02:
        shape = "wide256"
    if shape == "flat":
        t = world.gen_tree(rng, max_files=8, max_dirs=0, min_files=1)
    elif shape == "wide":
        t = {}
        n = rng.randint(12, 16)
        for i in range(n):
            nm = world.gen_name(rng, rng.choice(["plain", "uni", "space"])) + str(i)
            t[nm] = world.gen_bytes(rng) if rng.random() < 0.7 else None
    elif shape == "wide256":
        t = {"blk": None}
        for i in range(rng.choice([256, 256, 512, 255, 257])):
            t["blk/%04d" % i] = bytes([i % 256, i // 256])
        t["other.bin"] = b"o"
    elif shape == "deep":
        t = {}
        p = ""
        for i in range(rng.randint(3, 5)):
            p = (p + "/" if p else "") + "d-" + world.gen_name(rng, rng.choice(["plain", "uni", "space", "punct"]), ext=False)
            t[p] = None
            if rng.random() < 0.6:
                t[p + "/f-" + world.gen_name(rng, "plain")] = world.gen_bytes(rng)
    elif shape == "dirsonly":
        t = world.gen_tree(rng, max_files=0, max_dirs=6)
    elif shape == "empty":
        t = {}
    elif shape == "dups":
        t = world.gen_tree(rng, max_files=8, max_dirs=3, min_files=3)
        data = rng.randbytes(9)
        for k in list(t):
            if t[k] is not None and rng.random() < 0.6:
                t[k] = data
    else:
        t = world.gen_tree(rng, max_files=rng.choice([3, 9, 14]), max_dirs=rng.choice([1, 4, 7]), max_depth=5)
    return shape, t


def _expected(tree, patterns, fmt):
    folders = {k for k, v in tree.items() if v is None}
    for k in tree:
        parts = k.split("/")
        folders.update("/".join(parts[:i]) for i in range(1, len(parts)))
    keep = lambda rel: ignoreref.match(patterns, rel, rel in folders) is not True
    out = {}
    dirhash.hashes(dirhash.build(tree, keep), fmt, out)
    return out


def _printed(text):
    got = {}
    for line in text.split("\n"):
        m = DIR_LINE.match(line)
        if m:
            got.setdefault(m.group(2), {})[m.group(1)] = (m.group(3), m.group(4))
            continue
        m = ROOT_LINE.match(line)
        if m:
            got.setdefault(m.group(1), {})["."] = (m.group(2), m.group(3))
    return got


def _tool_dh(root, fmt, pats):
    a = [root, "-dh", "-co", "-h", fmt]
    for p in pats:
        a += ["-i", p]
    r = drive.run("verify", a)
    return r, _printed(r.out).get(fmt, {})


def run_case(cs):
    rng = cs.rng
    shape, tree = _tree(rng)
    pats = rng.sample(["*.tmp", "skipme", "?x.dat"], rng.choice([0, 0, 1, 2]))
    if rng.random() < 0.2:
        # patterns with a separator are tied to the root folder: the full path of an entry excludes it, the tail of a deep
        # path (parent/name) excludes nothing unless such an entry exists directly below the root
        deep = sorted(k for k in tree if k.count("/") >= 1 and re.match(r"^[A-Za-z0-9_./-]+$", k) and not k.startswith("-"))
        if deep:
            k = rng.choice(deep)
            pats.append(rng.choice([k, "/".join(k.split("/")[-2:]), "/" + k, k.split("/")[0] + "/*", "/".join(k.split("/")[:-1]) + "/"]))
            cs.count("anchored_patterns")
    dirs = [""] + [k for k, v in tree.items() if v is None]
    for n in rng.sample([".DS_Store", "a.tmp", "skipme", "ax.dat"], rng.randint(0, 2)):
        par = rng.choice(dirs)
        tree[(par + "/" if par else "") + n] = b"ign" + rng.randbytes(2)
    d = cs.dir()
    root = os.path.join(d, world.root_name(rng))
    world.write_tree(root, tree)
    os.makedirs(root, exist_ok=True)
    file_links, link_targets = set(), set()
    if rng.random() < 0.12:
        # links to regular files: they are entries of their folder under their *own* name, with the target's content
        fl = world.add_file_symlinks(rng, root, tree, rng.randint(1, 2))
        if fl:
            cs.count("trees_with_file_symlinks")
            file_links = set(fl)
            for lk in fl:
                # what the link resolves to inside the tree (a change there is a change of the link's content as well)
                rp = os.path.relpath(os.path.realpath(os.path.join(root, lk)), os.path.realpath(root))
                if rp != ".." and not rp.startswith("../"):
                    link_targets.add(rp)
    folder_links = False
    if rng.random() < 0.1:
        # links to folders (inside, outside, the parent): neither followed nor part of any directory hash
        os.makedirs(os.path.join(d, "outside"), exist_ok=True)
        if world.add_dir_symlinks(rng, root, tree, rng.randint(1, 2), outside=os.path.join(d, "outside")):
            cs.count("trees_with_folder_symlinks")
            folder_links = True
    allpat = ignoreref.DEFAULTS + pats
    formats = world.gen_formats(rng, repeat=True)
    if rng.random() < 0.1:
        formats = formats + [formats[0]]
    # ---------- printed by verify -dh -co on the history-less tree
    f0 = rng.choice(formats)
    want = _expected(tree, allpat, f0)
    r, got = _tool_dh(root, f0, pats)
    cs.evaluated()
    if r.internal or r.exit != 0:
        cs.violation(classify.internal_key(r) if r.internal else "dh-calc-nonzero", {"kind": "verify-dh-co-failed", "exit": r.exit, "exc": r.exc_class}, r.brief())
        return
    _compare(cs, "printed", f0, shape, want, got, {"tree": sorted(tree)[:20], "patterns": pats})
    cs.count("printed_compared", len(want))
    if rng.random() < 0.3:
        r2 = drive.run("verify", [root, "-dh", "-co", "-ro", "-h", f0] + [x for p in pats for x in ("-i", p)])
        g2 = _printed(r2.out).get(f0, {})
        cs.evaluated()
        if g2.get(".") != want["."]:
            cs.violation("root-only-hash-wrong", {"kind": "dirhash-mismatch", "source": "printed-ro", "format": f0}, {"got": g2.get("."), "want": want["."]})
    # ---------- metamorphic variant on a copy
    rel_kind = rng.choice(["rename", "edit", "permute"])
    if rel_kind == "rename" and any(ignoreref.classify(p) == "anchored" for p in pats):
        rel_kind = "edit"  # a pattern that spells out a path stops matching when a component of that path is renamed
    work = os.path.join(d, "M")
    shutil.copytree(root, work, symlinks=True)
    t2 = dict(tree)
    target = None
    if rel_kind == "rename":
        # (renaming a folder would leave a relative link to it dangling: with folder links present only files are renamed)
        cand = [k for k in tree if ignoreref.match(allpat, k, tree[k] is None) is False and not ((folder_links or file_links) and tree[k] is None) and k not in link_targets]
        if cand:
            target = rng.choice(cand)
            par = os.path.dirname(target)
            newname = "renamed-" + world.gen_name(rng, rng.choice(["plain", "uni"]), ext=False)
            new = (par + "/" if par else "") + newname
            os.rename(os.path.join(work, target), os.path.join(work, new))
            t2 = {}
            for k, v in tree.items():
                if k == target:
                    t2[new] = v
                elif k.startswith(target + "/"):
                    t2[new + k[len(target) :]] = v
                else:
                    t2[k] = v
    elif rel_kind == "edit":
        cand = [k for k, v in tree.items() if v is not None and ignoreref.match(allpat, k) is False and k not in link_targets and k not in file_links]
        if cand:
            target = rng.choice(cand)
            t2[target] = tree[target] + b"!"
            with open(os.path.join(work, target), "wb") as f:
                f.write(t2[target])
    else:
        listing.set_seed(rng.randint(1, 10**6))
        target = "."
    if target is not None:
        r3, got3 = _tool_dh(work, f0, pats)
        listing.set_seed(None)
        cs.evaluated()
        want3 = _expected(t2, allpat, f0)
        _compare(cs, "printed-" + rel_kind, f0, shape, want3, got3, {"relation": rel_kind, "target": target})
        if r3.exit == 0 and got and got3:
            cs.count("metamorphic_pairs")
            cs.cls("meta", rel_kind, f0, shape)
            anc = []
            p = os.path.dirname(target) if target != "." else None
            while p is not None:
                anc.append(p or ".")
                p = os.path.dirname(p) if p else None
            for a in anc:
                if a not in got or a not in got3:
                    continue
                c1, s1 = got[a]
                c2, s2 = got3[a]
                if rel_kind == "rename" and (c1 != c2 or s1 == s2):
                    cs.violation(
                        "rename-relation-broken",
                        {"kind": "metamorphic", "relation": "rename", "content_changed": c1 != c2, "structure_changed": s1 != s2, "format": f0},
                        {"ancestor": a, "target": target},
                    )
                if rel_kind == "edit" and (c1 == c2 or s1 == s2):
                    cs.violation(
                        "edit-relation-broken",
                        {"kind": "metamorphic", "relation": "edit", "content_changed": c1 != c2, "structure_changed": s1 != s2, "format": f0},
                        {"ancestor": a, "target": target},
                    )
            if rel_kind == "permute" and got != got3:
                cs.violation("listing-order-changes-hash", {"kind": "metamorphic", "relation": "permute", "format": f0}, {"diff": [k for k in got if got.get(k) != got3.get(k)][:4]})
    shutil.rmtree(work, ignore_errors=True)
    # ---------- recorded by create (optionally with nested histories)
    subdirs = [k for k, v in tree.items() if v is None and ignoreref.match(allpat, k, True) is False]
    nested = rng.sample(subdirs, min(len(subdirs), rng.choice([0, 0, 1, 2])))
    for n in nested:
        drive.run("create", [os.path.join(root, n)] + world.fmt_args(world.gen_formats(rng)) + [x for p in pats for x in ("-i", p)])
    if rng.random() < 0.3:
        listing.set_seed(rng.randint(1, 10**6))
    r, new, before, after = hist.create(root, formats, [x for p in pats for x in ("-i", p)])
    listing.set_seed(None)
    cs.evaluated()
    if r.internal or r.exit != 0:
        cs.violation(classify.internal_key(r) if r.internal else "create-nonzero", {"kind": "create-failed", "exit": r.exit, "exc": r.exc_class}, r.brief())
        return
    wants = {f: _expected(tree, allpat, f) for f in set(formats)}
    recorded = {f: {} for f in set(formats)}
    for h, names in new.items():
        for n in names:
            if not n.endswith(".mhl"):
                continue
            m = xmlread.read_manifest_bytes(after[h][n])
            rh = m["processinfo"]["roothash"]
            if rh is None:
                cs.violation("roothash-missing", {"kind": "roothash-missing", "nested": h != "."}, {"history": h})
            else:
                cmap = {f: v for f, v, _, _ in rh["content"]}
                smap = {f: v for f, v, _, _ in rh["structure"]}
                for f in cmap:
                    _put(cs, recorded, f, h, (cmap[f], smap.get(f)), "roothash")
            for rec in m["hashes"]:
                if rec["kind"] != "dir":
                    continue
                rel = rec["path"] if h == "." else h + "/" + rec["path"]
                cmap = {f: v for f, v, _, _ in rec["content"]}
                smap = {f: v for f, v, _, _ in rec["structure"]}
                for f in cmap:
                    _put(cs, recorded, f, rel, (cmap[f], smap.get(f)), "directoryhash")
    for f in set(formats):
        # formats a nested history added for its own verification are not requested here; only requested formats are judged
        _compare(cs, "recorded", f, shape, wants[f], recorded.get(f, {}), {"nested": nested, "tree": sorted(tree)[:20], "patterns": pats, "formats": formats})
    if f0 in recorded and got and recorded[f0] and {k: v for k, v in recorded[f0].items() if k in got} != {k: v for k, v in got.items() if k in recorded[f0]}:
        cs.violation("recorded-differs-from-printed", {"kind": "recorded-vs-printed", "format": f0}, {})
    # ---------- a later generation after a content edit, in other formats: the recorded hashes still follow the definition
    edit_files = sorted(k for k, v in tree.items() if v is not None and ignoreref.match(allpat, k) is False and k not in link_targets and k not in file_links)
    if edit_files and rng.random() < 0.4:
        victim = rng.choice(edit_files)
        tree[victim] = tree[victim] + b"#edited"
        with open(os.path.join(root, victim), "wb") as f:
            f.write(tree[victim])
        fm2 = world.gen_formats(rng)
        r, new, before, after = hist.create(root, fm2, [x for p in pats for x in ("-i", p)])
        cs.evaluated()
        cs.count("create_after_edit")
        if r.internal or r.exit != 11:
            cs.violation(classify.internal_key(r) if r.internal else "create-after-edit-exit", {"kind": "create-after-edit", "exit": r.exit, "exc": r.exc_class}, r.brief())
        else:
            wants2 = {f: _expected(tree, allpat, f) for f in set(fm2)}
            rec2 = {f: {} for f in set(fm2)}
            for h, names in new.items():
                for n in names:
                    if not n.endswith(".mhl"):
                        continue
                    m = xmlread.read_manifest_bytes(after[h][n])
                    rh = m["processinfo"]["roothash"]
                    if rh is not None:
                        sm = {f: v for f, v, _, _ in rh["structure"]}
                        for f, v, _, _ in rh["content"]:
                            _put(cs, rec2, f, h, (v, sm.get(f)), "roothash")
                    for rec in m["hashes"]:
                        if rec["kind"] == "dir":
                            rel = rec["path"] if h == "." else h + "/" + rec["path"]
                            sm = {f: v for f, v, _, _ in rec["structure"]}
                            for f, v, _, _ in rec["content"]:
                                _put(cs, rec2, f, rel, (v, sm.get(f)), "directoryhash")
            for f in set(fm2):
                _compare(cs, "recorded-after-edit", f, shape, wants2[f], rec2.get(f, {}), {"victim": victim, "formats_before": formats, "formats_now": fm2, "nested": nested})
    cs.count("shape:" + shape)
    cs.count("maxfanout>=12" if shape == "wide" else "fanout<12")
    cs.sample({"shape": shape, "formats": formats, "patterns": pats, "relation": rel_kind, "nested": nested, "dirs": len(want)})


def _put(cs, recorded, f, rel, val, src):
    if f not in recorded:
        return
    if rel in recorded[f] and recorded[f][rel] != val:
        cs.violation("child-root-differs-from-parent-entry", {"kind": "two-records-disagree", "format": f}, {"path": rel, "a": recorded[f][rel], "b": val, "src": src})
    recorded[f][rel] = val


def _compare(cs, source, fmt, shape, want, got, ctx):
    for rel, (c, s) in want.items():
        cs.count("dirhash_compared")
        if rel not in got:
            cs.violation("dirhash-missing", {"kind": "dirhash-missing", "source": source, "format": fmt, "root": rel == "."}, {"path": rel, **ctx})
            continue
        gc, gs = got[rel]
        cs.cls(source, fmt, shape, "root" if rel == "." else "sub")
        if (gc, gs) != (c, s):
            cs.violation(
                "dirhash-mismatch",
                {"kind": "dirhash-mismatch", "source": source, "format": fmt, "content_ok": gc == c, "structure_ok": gs == s},
                {"path": rel, "got": [gc, gs], "want": [c, s], **ctx},
            )
    extra = [k for k in got if k not in want]
    if extra:
        cs.violation("dirhash-for-ignored-or-unknown-dir", {"kind": "dirhash-extra", "source": source, "format": fmt}, {"extra": extra[:4], **ctx})
