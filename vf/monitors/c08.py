"""C08 — nested histories partition the tree and reference each other correctly.

Oracle: on-disk layout of ascmhl folders (which history is the deepest one containing a path), O1 c4 of the final bytes
of each referenced child manifest, independent reader (O3), audit-event order (I1).  Observed: <hashes>, <roothash> and
<references> of every manifest a run wrote, the listing of every ascmhl folder before/after, and the order in which the
files in the different ascmhl folders were opened for writing."""
import os

from .. import audit, classify, drive, hist, world
from ..oracle import ignoreref, refhash, xmlread

TECHNIQUE = 'runtime monitoring: partition / reference / write-order checker over manifests of nested histories (independent reader, audit-event order)'
LEVEL = "exploration"
RULE = (
    "case = directory skeleton with prefix-named siblings (K, KA, 'K A'), chains to depth 4 and an optional ignored sub tree, "
    "2-6 of the directories made history roots in random order (child-first / parent-first), then create in folder mode "
    "(+-n, -i) or -sf into one or several (deep) children; class = (number of histories, max depth, mode, creation order, "
    "prefix siblings present, ignored history present)"
)
ASSUMPTIONS = ["depth <= 4, <= 7 histories per tree"]
MIN_DECIDING = {"references_checked": 100, "child_root_vs_parent_entry": 50, "write_order_checked": 50}

SKEL = ["K", "KA", "K A", "K/KK", "K/KK/KKK", "K/KK/KKK/K4", "K/sib", "S", "S/T", "S/T ", "plain", "skipdir", "skipdir/H", ".hid", ".hid/N", "dot.", "dot./x._y", "\u00fc\u65e5", "CamA", "CamB", "CamA/Clips", "CamB/Clips", "Cafe\u0301_A001", "Cafe\u0301_A001/in", "nfd/Mu\u0308ller", "nfd"]


def budget(tier):
    return {"cases": 2200, "seconds": 55} if tier == "quick" else {"cases": 80000, "seconds": 600}


def _parent_hist(h, hists):
    """nearest enclosing history of history root h"""
    best = "."
    for x in hists:
        if x != "." and x != h and h.startswith(x + "/") and len(x) > len(best if best != "." else ""):
            best = x
    return best


def run_case(cs):
    rng = cs.rng
    dirs = [s for s in SKEL if rng.random() < 0.6]
    # parents must exist
    full = set()
    for s in dirs:
        parts = s.split("/")
        for i in range(1, len(parts) + 1):
            full.add("/".join(parts[:i]))
    dirs = sorted(full)
    tree = {s: None for s in dirs}
    for s in [""] + dirs:
        for i in range(rng.randint(0, 2)):
            tree[(s + "/" if s else "") + "f" + str(i) + world.gen_name(rng, rng.choice(["plain", "uni", "space"]))] = world.gen_bytes(rng)
    bulk = None
    if dirs and (cs.seed_str.endswith(":0") or (cs.tier == "thorough" and rng.random() < 0.001)):
        # one nested history whose manifest is larger than 1 MiB (thousands of files with long names): the reference the
        # parent writes is the c4 of the *whole* child manifest
        bulk = rng.choice([x for x in dirs if not x.startswith("skipdir")] or dirs)
        for i in range(2400):
            tree[bulk + "/%04d-%s.ari" % (i, "A001C%03d_230101_R1AB_" % (i % 999) * 11)] = bytes([i % 251])
        cs.count("nested_history_with_manifest_over_1MiB")
    d = cs.dir()
    root = os.path.join(d, world.root_name(rng))
    world.write_tree(root, tree)
    os.makedirs(root, exist_ok=True)
    cand = [s for s in dirs]
    roots = rng.sample(cand, min(len(cand), rng.randint(1, 5)))
    if "CamA/Clips" in dirs and "CamB/Clips" in dirs and rng.random() < 0.6:
        # same base name, same parent history, same generation number, same second: the manifest file names are equal
        roots = [r for r in roots if r not in ("CamA", "CamB")]
        roots = list(dict.fromkeys(roots + ["CamA/Clips", "CamB/Clips"]))
    if bulk is not None and bulk not in roots:
        roots.append(bulk)
    order = rng.choice(["deep-first", "parent-first", "random"])
    seq = ["."] + roots
    if order == "deep-first":
        seq = sorted(seq, key=lambda s: -(s.count("/") + (s != ".")))
    elif order == "random":
        rng.shuffle(seq)
    steps = []
    for s in seq:
        p = root if s == "." else os.path.join(root, s)
        r = drive.run("create", [p] + world.fmt_args(world.gen_formats(rng)))
        steps.append(f"init {s!r} => {r.exit}")
        if r.internal or r.exit != 0:
            cs.skip("init-create-failed")
            return
    if "skipdir/H" in roots and rng.random() < 0.6:
        # the pattern is stored by an earlier run; a later `create -sf` into the nested history does not apply it
        r = drive.run("create", [root, "-h", "md5", "-i", "skipdir"])
        steps.append(f"store pattern skipdir => {r.exit}")
        cs.count("stored_pattern_covers_nested_history")
    hists = world.find_histories(root)
    # optional edits so that some runs end with 10/11 (generations are written regardless)
    if rng.random() < 0.3:
        t2 = world.read_tree(root)
        m = world.mutate(rng, root, t2, rng.choice(["flip", "delete_file", "add_file"]))
        if m:
            steps.append(f"edit {m['kind']} {m['path']!r}")
    ondisk = world.read_tree(root)
    mode = rng.choice(["folder", "folder", "sf"])
    if bulk is not None:
        mode = "folder"  # every history below the root gets a generation and a reference
    formats = world.gen_formats(rng)
    extra = []
    ign = []
    if mode == "folder":
        if "skipdir" in tree and rng.random() < 0.7:
            ign = ["skipdir"]
            extra += ["-i", "skipdir"]
        if rng.random() < 0.3:
            extra.append("-n")
        prev = hist.latest_patterns(root, ".") or list(ignoreref.DEFAULTS)
        patterns = prev + ign
        expected_touched = {h for h in hists if h == "." or ignoreref.match(patterns, h) is False}
        sel = None
    else:
        files = sorted(k for k, v in ondisk.items() if v is not None)
        if not files:
            cs.skip("no-files")
            return
        sel = rng.sample(files, min(len(files), rng.choice([1, 1, 2, 3])))
        under_skip = [f for f in files if f.startswith("skipdir/H/")]
        if under_skip and rng.random() < 0.5:
            sel = [rng.choice(under_skip)]
        for f in sel:
            extra += ["-sf", os.path.join(root, f)]
        expected_touched = set()
        for f in sel:
            h = world.owner(f, hists)
            while True:
                expected_touched.add(h)
                if h == ".":
                    break
                h = _parent_hist(h, hists)
        patterns = list(ignoreref.DEFAULTS)
    root_arg = None
    if rng.random() < 0.15:
        # the root is reached through a link to a folder above it (a volume mounted elsewhere and linked into the
        # project folder): the histories and the references between them are the same
        via = os.path.join(d, "via-link")
        if not os.path.lexists(via):
            os.symlink(d, via)
        root_arg = os.path.join(via, os.path.basename(root))
        extra = [root_arg + e[len(root):] if e.startswith(root + "/") else e for e in extra]
        cs.count("root_reached_through_link_to_a_folder_above")
    with audit.record() as ev:
        # (a working directory is given with the link so that the root is not respelled relative to the *resolved* folder)
        r, new, before, after = hist.create(root, formats, extra, root_arg=root_arg, cwd=d if root_arg else None)
    steps.append(f"create {mode} {formats} {[e for e in extra if not e.startswith('/')]} => {r.exit}")
    cs.evaluated()
    ctx = {"steps": steps, "histories": hists, "mode": mode, "sel": sel}
    if r.internal:
        cs.violation(classify.internal_key(r), classify.internal_sig(r, "create-" + mode), {**ctx, **r.brief()})
        return
    if r.exit not in (0, 10, 11):
        cs.skip("exit-%s" % r.exit)
        return
    touched = {h for h in after if after[h] != before.get(h)}
    # (e) which histories got a generation
    if touched != expected_touched:
        cs.violation(
            "wrong-set-of-histories-touched",
            {"kind": "touched-set", "mode": mode, "missing": bool(expected_touched - touched), "unexpected": bool(touched - expected_touched)},
            {**ctx, "touched": sorted(touched), "expected": sorted(expected_touched)},
        )
    newman = {}
    for h in touched:
        names = [n for n in new.get(h, []) if n.endswith(".mhl")]
        if len(names) != 1:
            cs.violation("touched-history-not-one-manifest", {"kind": "manifest-count", "n": len(names)}, {**ctx, "history": h})
            continue
        newman[h] = (names[0], after[h][names[0]], xmlread.read_manifest_bytes(after[h][names[0]]))
    # (a) partition
    seen = {}
    for h, (name, data, m) in newman.items():
        for rec in m["hashes"]:
            p = rec["path"]
            if p is None or p.startswith("/") or p == ".." or p.startswith("../") or "/../" in p:
                cs.violation("record-path-escapes-history", {"kind": "path-form", "mode": mode}, {**ctx, "history": h, "path": p})
                continue
            rel = p if h == "." else h + "/" + p
            seen.setdefault(rel, []).append((h, rec["kind"]))
    for rel, lst in seen.items():
        cs.count("partition_checked")
        own = world.owner(rel, hists)
        if len(lst) != 1:
            cs.violation("entry-recorded-in-several-histories", {"kind": "partition", "n": len(lst)}, {**ctx, "path": rel, "in": lst})
        elif lst[0][0] != own:
            cs.violation(
                "entry-not-in-deepest-history",
                {"kind": "partition-owner", "prefix_sibling": any(rel.startswith(x) and not rel.startswith(x + "/") for x in hists if x != ".")},
                {**ctx, "path": rel, "recorded_in": lst[0][0], "deepest": own},
            )
        if rel not in ondisk:
            cs.violation("record-for-nonexistent-entry", {"kind": "phantom-record"}, {**ctx, "path": rel, "history": lst[0][0]})
    # (b) child root hash == parent's directory entry
    for h, (name, data, m) in newman.items():
        if h == ".":
            continue
        ph = _parent_hist(h, hists)
        if ph not in newman:
            continue
        rh = m["processinfo"]["roothash"]
        prec = [x for x in newman[ph][2]["hashes"] if (x["path"] if ph == "." else ph + "/" + x["path"]) == h]
        if mode == "folder":
            cs.count("child_root_vs_parent_entry")
            if len(prec) != 1 or prec[0]["kind"] != "dir":
                cs.violation("child-root-missing-in-parent", {"kind": "child-root-entry", "n": len(prec)}, {**ctx, "child": h, "parent": ph})
                continue
            pc = {f: v for f, v, _, _ in prec[0]["content"]}
            ps = {f: v for f, v, _, _ in prec[0]["structure"]}
            if rh is None:
                if pc and "-n" not in extra:
                    cs.violation("child-roothash-missing", {"kind": "child-roothash-missing"}, {**ctx, "child": h})
                continue
            cc = {f: v for f, v, _, _ in rh["content"]}
            cst = {f: v for f, v, _, _ in rh["structure"]}
            if pc != cc or ps != cst:
                cs.violation(
                    "child-root-hash-differs-from-parent-entry",
                    {"kind": "child-root-vs-parent", "content_equal": pc == cc, "structure_equal": ps == cst},
                    {**ctx, "child": h, "parent": ph, "parent_entry": [pc, ps], "child_root": [cc, cst]},
                )
    # (c) references
    for h, (name, data, m) in newman.items():
        kids = [c for c in newman if c != h and _parent_hist(c, hists) == h]
        want = set()
        for c in kids:
            crel = c if h == "." else c[len(h) + 1 :]
            want.add((crel + "/ascmhl/" + newman[c][0], refhash.digest("c4", newman[c][1])))
        got = [(x["path"], x["c4"]) for x in m["references"]]
        cs.count("references_checked", max(1, len(want)))
        if len(got) != len(set(got)) or set(got) != want:
            gp = {g[0] for g in got}
            wp = {w[0] for w in want}
            cs.violation(
                "references-wrong",
                {"kind": "references", "paths_equal": gp == wp, "digest_only": gp == wp and set(got) != want, "depth": h.count("/") + (h != ".")},
                {**ctx, "history": h, "got": sorted(got), "want": sorted(want)},
            )
    # (d) write order: everything written into a child's ascmhl folder precedes the first write into its parent's
    first, last = {}, {}
    for i, e in enumerate(audit.fs_mutations(ev.events)):
        for p in audit.target_paths(e):
            dn = os.path.dirname(os.path.abspath(p))
            if os.path.basename(dn) == "ascmhl" and dn.startswith(root):
                hrel = os.path.relpath(os.path.dirname(dn), root)
                first.setdefault(hrel, i)
                last[hrel] = i
    for h in newman:
        if h == ".":
            continue
        ph = _parent_hist(h, hists)
        if ph in first and h in last:
            cs.count("write_order_checked")
            if not last[h] < first[ph]:
                cs.violation("parent-written-before-child-finished", {"kind": "write-order"}, {**ctx, "child": h, "parent": ph, "child_last": last[h], "parent_first": first[ph]})
    depth = max([h.count("/") + 1 for h in hists if h != "."] or [0])
    cs.cls("h%d" % len(hists), "d%d" % depth, mode, order, "prefix" if {"K", "KA"} <= set(hists) or {"K", "K A"} <= set(hists) else "", "ign" if ign else "", "exit%s" % r.exit)
    cs.count("mode:" + mode)
    cs.count("depth:%d" % depth)
    cs.sample({"histories": hists, "order": order, "steps": steps, "touched": sorted(touched)})
