"""C15 — an interrupted create never damages what was already recorded.

Technique: kill-point enumeration (I6).  `create` is first run un-crashed in a forked child with every write-mode file of
the writers proxied, which records the event list E (mkdir, open, every write() call, flush, close, rename).  Then for
every event k the same run is repeated on a fresh copy of the same state and the process dies (os._exit, no flushing)
*before* event k is applied, and for write events additionally after half of the bytes.  Oracle: the pre-crash bytes of
the committed manifests, the independent chain reader (O3), O1 for c4, the reference run's complete manifest bytes (frozen
clock), and the exit code / exception of info, verify and create run afterwards."""
import os
import re
import shutil

from .. import classify, clock, crash, drive, hist, strace, world
from ..oracle import refhash, xmlread

SPELLING = False  # this monitor controls the spelling of path arguments itself
VERBOSITY = False  # stdout of verify -dh -co is parsed / runs must be identical
TECHNIQUE = 'runtime monitoring: kill-point enumeration (os._exit before each recorded file-system event / half-applied writes in a forked child; real SIGKILL via strace inject on a sample) with state oracle and follow-up commands'
LEVEL = "fault_enumeration"
RULE = (
    "scenario = history with 0/1/2/5 prior generations, flat or with 1-2 nested histories (12 % with folder names of 223-227 bytes), then an interrupted create (folder "
    "mode or -sf); crash points = every event of the recorded event list (before it is applied) plus every write event cut "
    "after half of its bytes; each crash state is followed by info, verify, create; quick samples at most 90 points per "
    "scenario (all non-write events kept), thorough enumerates all; class = (event kind, file role, cut mode, prior generations)"
)
ASSUMPTIONS = [
    "kill semantics only: a prefix of the writes reaches the file; power loss with reordered data/metadata is out of reach (no fsync in the code)",
    "a complete, valid manifest that the chain does not list yet counts as 'present' (the loader accepts it and the next create proceeds)",
]
MIN_DECIDING = {"crash_points": 300, "followups": 600}

NOW = 1_650_000_000
LOADABLE = re.compile(r"^\d{4,}(_.+)?\.mhl$", re.S)


def budget(tier):
    return {"cases": 32, "seconds": 55} if tier == "quick" else {"cases": 640, "seconds": 600}


def _role(path, root):
    rel = os.path.relpath(path, root)
    parts = rel.split(os.sep)
    who = "root" if parts[0] == "ascmhl" else "child"
    base = parts[-1]
    if base == "ascmhl":
        return who + "-mkdir"
    if "chain" in base:
        return who + "-chain"
    if ".mhl" in base:
        return who + "-manifest"
    return who + "-other"


def run_case(cs):
    rng = cs.rng
    d = cs.dir()
    state = os.path.join(d, "state")
    work = os.path.join(d, "work")
    # now and then a folder name that just fits into a manifest name (NNNN_<folder>_<18 chars>.mhl of at most 255 bytes)
    idx = int(cs.seed_str.rsplit(":", 1)[1])
    long_names = rng.random() < 0.12 or idx in (0, 1)  # (the first cases of every run carry the rare folder name classes)
    rname = "root" if not long_names or (rng.random() < 0.4 and idx != 0) else "r" * rng.randint(223, 227)
    if not long_names and (rng.random() < 0.12 or idx == 2):
        # the extension of the manifests inside the folder name
        rname = rng.choice(["A001.mhl_offload", "root.mhl", "x.mhl.bak"])
        cs.count("scenarios_with_mhl_in_folder_name")
    sroot = os.path.join(state, rname)
    root = os.path.join(work, rname)
    nested = rng.choice([[], [], ["K"], ["K", "M"], ["K", "K/L"]])
    if rng.random() < 0.08:
        nested = rng.choice([["K.mhl_copy"], ["K.mhl_copy", "M"]])
    if long_names and (rname == "root" or rng.random() < 0.3 or idx == 1):
        kname = "K" * rng.randint(223, 227)
        nested = rng.choice([[kname], [kname, "M"]])
    if long_names:
        cs.count("scenarios_with_folder_names_of_223_to_227_bytes")
    tree = {s: None for s in nested}
    for s in [""] + nested:
        for i in range(rng.randint(1, 2)):
            tree[(s + "/" if s else "") + "f%d.bin" % i] = rng.randbytes(rng.randint(0, 12))
    prior = rng.choice([0, 0, 1, 2, 5])
    if rng.random() < 0.1 or idx == 3:
        prior = rng.randint(32, 36)  # a long-lived history
        cs.count("scenarios_with_32_or_more_generations")
    # build the committed state under the *work* path (so that paths are identical in every run), then move it to `state`
    world.write_tree(root, tree)
    clock.freeze(NOW - 1000)
    child_prior = {}
    for s in nested:
        if rng.random() < 0.7 or prior > 0:
            n = rng.randint(1, 2)
            for _ in range(n):
                drive.run("create", [os.path.join(root, s), "-h", "md5"])
            child_prior[s] = n
    for g in range(prior):
        r = drive.run("create", [root, "-h", rng.choice(["md5", "xxh64"])])
        if r.exit != 0:
            cs.skip("setup-failed")
            return
    if prior > 0:
        for s in nested:
            child_prior[s] = len(world.manifests(root, s))
    if rng.random() < 0.5:
        with open(os.path.join(root, "added.bin"), "wb") as f:
            f.write(b"new" + rng.randbytes(3))
    if rng.random() < 0.3:
        for h in world.find_histories(root):
            with open(os.path.join(hist.asc_dir(root, h), "ascmhl_chain.xml.tmp"), "wb") as f:
                f.write(b'<?xml version="1.0"?>\n<ascmhldirectory>\n' + b"  <stale entry of an interrupted run/>\n" * 400)
        cs.count("scenarios_with_stale_chain_tmp")
    world.set_mtimes(root, fixed=NOW - 5000)
    os.rename(work, state)
    clock.freeze(NOW)
    files = sorted(k for k, v in world.read_tree(sroot).items() if v is not None)
    argv = [root] + world.fmt_args(world.gen_formats(rng)[:2])
    mode_sf = rng.random() < 0.25
    if mode_sf:
        argv += ["-sf", os.path.join(root, rng.choice(files))]
    S = hist.listing(sroot)

    def fresh():
        shutil.rmtree(work, ignore_errors=True)
        shutil.copytree(state, work, symlinks=True)

    def the_run():
        r = drive.run("create", argv)
        return 1000 if r.internal else r.exit

    log = os.path.join(d, "events.log")
    fresh()
    status, E = crash.run_forked(the_run, 0, None, log)
    if not (isinstance(status, tuple) and status[0] == "done") or status[1] == 1000:
        cs.skip("reference-run-failed:%s" % (status,))
        return
    R = hist.listing(root)
    ref_exit = status[1]
    points = []
    for k, kind, path, n in E:
        points.append((k, "none", kind, path))
        if kind == "write" and n and n >= 2:
            points.append((k, "half", kind, path))
        if rng.random() < 0.25:
            points.append((k, "sigint", kind, path))  # interrupted by Ctrl-C at this point instead of killed
        if kind in ("rename", "mkdir", "close", "remove") and rng.random() < 0.5:
            # Ctrl-C while this operation runs: it completes, then the interpreter raises inside the caller's try blocks
            points.append((k, "sigint_after", kind, path))
    cap = 90 if cs.tier == "quick" else 10**6
    if prior >= 32:
        cap = 24 if cs.tier == "quick" else 200  # every point costs a copy of the long history and five commands on it
    if len(points) > cap:
        keep = [p for p in points if p[2] != "write"]
        rest = [p for p in points if p[2] == "write"]
        rng.shuffle(rest)
        points = sorted(keep + rest[: max(0, cap - len(keep))])
        cs.count("scenarios_sampled")
    else:
        cs.count("scenarios_exhaustive")
    cs.count("events_in_reference_runs", len(E))
    ctx0 = {"prior": prior, "nested": nested, "child_prior": child_prior, "argv": [a.replace(d, "") for a in argv], "ref_exit": ref_exit, "events": len(E)}
    for k, mode, kind, path in points:
        fresh()
        status, ev = crash.run_forked(the_run, k, mode, log)
        if status != "crashed":
            raise RuntimeError(f"crash point {k}/{mode} not reached: {status} (event sequence diverged from the reference run)")
        role = _role(path, root)
        if kind in ("remove",) or rng.random() < 0.06:
            # a second run is killed on top of what the first kill left (power loss twice in a row): the generations
            # that were committed before the two of them are still there and the history still loads
            chain_writes = [e[0] for e in E if e[1] == "write" and str(e[2]).endswith(".tmp") and "chain" in os.path.basename(str(e[2]))]
            for attempt in range(4 if kind == "remove" else 1):
                if attempt:
                    fresh()
                    crash.run_forked(the_run, k, mode, log)
                k2 = rng.choice(chain_writes) if chain_writes and rng.random() < 0.7 else rng.randint(1, max(1, len(E)))
                status2, ev2 = crash.run_forked(the_run, k2, "none", log)
                cs.evaluated()
                cs.count("double_kill_points")
                cs.cls(kind, role, mode, "second-kill")
                _judge_twice(cs, root, S, {**ctx0, "crash_at": k, "mode": mode, "event": kind, "role": role, "path": path.replace(d, ""), "second_crash_at": k2, "second_status": str(status2)[:40]})
            continue
        cs.evaluated()
        cs.count("crash_points")
        cs.count("event:" + kind)
        cs.count("role:" + role)
        cs.cls(kind, role, mode, "prior%d" % prior)
        ctx = {**ctx0, "crash_at": k, "mode": mode, "event": kind, "role": role, "path": path.replace(d, "")}
        _judge(cs, root, S, R, ctx, prior, child_prior)
    # ---- I7: real SIGKILLs in a sub-process under strace (real buffering, real kill semantics)
    if strace.available() and (cs.tier == "thorough" or cs.rng.random() < 0.2):
        _real_kills(cs, d, state, work, root, argv, S, ctx0, prior, child_prior, 12 if cs.tier == "thorough" else 4)
    cs.sample({**ctx0, "points": len(points), "first_events": [[e[1], _role(e[2], root)] for e in E[:12]]})


def _real_kills(cs, d, state, work, root, argv, S, ctx0, prior, child_prior, cap):
    rng = cs.rng

    def fresh():
        shutil.rmtree(work, ignore_errors=True)
        shutil.copytree(state, work, symlinks=True)

    envx = {"VF_NOW": str(NOW), "TZ": "UTC"}
    fresh()
    rc, counts = strace.count_syscalls("bare:create", argv[0:1] + argv[1:], os.path.join(d, "count.log"), which="write,rename,mkdir,sendfile,copy_file_range,unlink,link,ftruncate", extra_env=envx)
    if rc not in (0, 10, 11):
        cs.skip("strace-reference-exit-%s" % rc)
        return
    R = hist.listing(root)
    pts = [(c, n) for c in ("write", "rename", "mkdir") for n in range(1, counts.get(c, 0) + 1)]
    # system calls the unchanged tool does not make at all while committing; when they occur every one is a kill point
    rare = [(c, n) for c in ("sendfile", "copy_file_range", "unlink", "link", "ftruncate") for n in range(1, counts.get(c, 0) + 1)]
    rng.shuffle(pts)
    rng.shuffle(rare)
    for call, n in sorted(pts[:cap] + rare[:cap]):
        fresh()
        rc = strace.kill_at("bare:create", argv, call, n, extra_env=envx)
        if rc != -9:
            cs.count("real_kill_not_delivered")
            continue
        cs.evaluated()
        cs.count("real_sigkill_points")
        cs.count("real_kill:" + call)
        cs.cls("sigkill", call, "prior%d" % prior)
        ctx = {**ctx0, "crash_at": n, "mode": "sigkill", "event": "syscall:" + call, "role": "n/a", "path": ""}
        _judge(cs, root, S, R, ctx, prior, child_prior)


def _parses(data, chain):
    try:
        (xmlread.read_chain_bytes if chain else xmlread.read_manifest_bytes)(data)
        return True
    except Exception:
        return False


def _judge_twice(cs, root, S, ctx):
    """after two interrupted runs in a row: what was committed before them is intact, listed and loadable"""
    W = hist.listing(root)
    damaged = False
    for h, before in S.items():
        now = W.get(h)
        if now is None:
            cs.violation("history-folder-vanished", {"kind": "crash-history-vanished"}, {**ctx, "history": h})
            continue
        for name, data in before.items():
            if name.endswith(".mhl") and now.get(name) != data:
                cs.violation("committed-manifest-damaged", {"kind": "crash-old-manifest", "missing": name not in now}, {**ctx, "history": h, "name": name})
        if "ascmhl_chain.xml" in before:
            cdata = now.get("ascmhl_chain.xml")
            if cdata is None or not _parses(cdata, True):
                damaged = True
                cs.violation("chain-truncated-in-place", {"kind": "crash-chain", "state": "missing" if cdata is None else "empty" if len(cdata) == 0 else "partial", "event": ctx["event"], "role": ctx["role"], "second_kill": True}, {**ctx, "history": h})
                continue
            to = [(e["sequencenr"], e["path"], e["c4"]) for e in xmlread.read_chain_bytes(before["ascmhl_chain.xml"])["entries"]]
            tn = [(e["sequencenr"], e["path"], e["c4"]) for e in xmlread.read_chain_bytes(cdata)["entries"]]
            if tn[: len(to)] != to:
                cs.violation("chain-lost-committed-generations", {"kind": "crash-chain-entries", "fewer": len(tn) < len(to), "second_kill": True}, {**ctx, "history": h, "before": to[-2:], "after": tn[-3:]})
    for h, now in W.items():
        cdata = now.get("ascmhl_chain.xml")
        if "ascmhl_chain.xml" not in S.get(h, {}) and cdata is not None and not _parses(cdata, True):
            damaged = True
            cs.violation("chain-truncated-in-place", {"kind": "crash-chain", "state": "partial-first", "event": ctx["event"], "role": ctx["role"], "second_kill": True}, {**ctx, "history": h, "chain_bytes": len(cdata)})
    for cmd, argv in (("info", [root]), ("create", [root, "-h", "md5"]), ("info", [root])):
        r = drive.run(cmd, argv)
        cs.evaluated()
        cs.count("followups")
        cs.count("followup:%s:%s" % (cmd, "internal" if r.internal else r.exit))
        if r.internal or r.exit in (31, 32, 33):
            first_gen_hist = [h for h in W if h not in S and "ascmhl_chain.xml" not in W[h]]
            key = "followup-fails-after-crash"
            if r.exit == 32 and first_gen_hist and not damaged:
                key = "first-generation-crash-window"
            elif damaged:
                key = "chain-truncated-in-place"
            cs.violation(key, {"kind": "crash-followup", "cmd": cmd, "exit": r.exit, "exc": r.exc_class, "event": ctx["event"], "role": ctx["role"], "mode": ctx["mode"], "second_kill": True}, {**ctx, "out": r.text[-300:]})
            break


def _judge(cs, root, S, R, ctx, prior, child_prior):
    W = hist.listing(root)
    damaged = None  # (history, what) mechanism found by looking at the files
    for h, before in S.items():
        now = W.get(h)
        if now is None:
            cs.violation("history-folder-vanished", {"kind": "crash-history-vanished"}, {**ctx, "history": h})
            continue
        for name, data in before.items():
            if name.endswith(".mhl") and now.get(name) != data:
                cs.violation("committed-manifest-damaged", {"kind": "crash-old-manifest", "missing": name not in now}, {**ctx, "history": h, "name": name})
        if "ascmhl_chain.xml" in before:
            cdata = now.get("ascmhl_chain.xml")
            old = xmlread.read_chain_bytes(before["ascmhl_chain.xml"])["entries"]
            if cdata is None or not _parses(cdata, True):
                damaged = (h, "chain")
                cs.violation(
                    "chain-truncated-in-place",
                    {"kind": "crash-chain", "state": "missing" if cdata is None else "empty" if len(cdata) == 0 else "partial", "event": ctx["event"], "role": ctx["role"]},
                    {**ctx, "history": h, "chain_bytes": None if cdata is None else len(cdata)},
                )
            else:
                ne = xmlread.read_chain_bytes(cdata)["entries"]
                to = [(e["sequencenr"], e["path"], e["c4"]) for e in old]
                tn = [(e["sequencenr"], e["path"], e["c4"]) for e in ne]
                if tn[: len(to)] != to or len(tn) > len(to) + 1:
                    cs.violation("chain-lost-committed-generations", {"kind": "crash-chain-entries", "fewer": len(tn) < len(to)}, {**ctx, "history": h, "before": to[-2:], "after": tn[-3:]})
                elif len(tn) == len(to) + 1:
                    nm = tn[-1][1]
                    if now.get(nm) is None or refhash.digest("c4", now[nm]) != tn[-1][2]:
                        cs.violation("chain-lists-incomplete-generation", {"kind": "crash-chain-new-entry"}, {**ctx, "history": h, "entry": tn[-1]})
    for h, now in W.items():
        before = S.get(h, {})
        cdata = now.get("ascmhl_chain.xml")
        if "ascmhl_chain.xml" not in before and cdata is not None and not _parses(cdata, True):
            damaged = damaged or (h, "chain")
            cs.violation(
                "chain-truncated-in-place",
                {"kind": "crash-chain", "state": "partial-first", "event": ctx["event"], "role": ctx["role"]},
                {**ctx, "history": h, "chain_bytes": len(cdata)},
            )
        for name, data in now.items():
            if name in before or not name.endswith(".mhl"):
                continue
            if LOADABLE.match(name) and not name.startswith("._"):
                want = R.get(h, {}).get(name)
                if data != want:
                    damaged = damaged or (h, "manifest")
                    cs.violation(
                        "manifest-final-name",
                        {"kind": "crash-partial-manifest", "wellformed": _parses(data, False), "event": ctx["event"], "role": ctx["role"]},
                        {**ctx, "history": h, "name": name, "bytes": len(data), "complete_bytes": None if want is None else len(want)},
                    )
    # follow-up commands on the crashed tree
    # (the commands after the complete create see a history that holds whatever the interrupted run left plus one more
    # generation: it has to load as well)
    for cmd, argv in (("info", [root]), ("verify", [root]), ("create", [root, "-h", "md5"]), ("verify", [root]), ("info", [root])):
        r = drive.run(cmd, argv)
        cs.evaluated()
        cs.count("followups")
        cs.count("followup:%s:%s" % (cmd, "internal" if r.internal else r.exit))
        if r.internal or r.exit in (31, 32, 33):
            key = "followup-fails-after-crash"
            # mechanism: the interrupted run itself created this ascmhl folder (no generation was committed in it
            # before) and died before the first chain file was moved into place
            first_gen_hist = [h for h in W if h not in S and "ascmhl_chain.xml" not in W[h]]
            if r.exit == 32 and first_gen_hist and not damaged:
                key = "first-generation-crash-window"
            elif damaged and damaged[1] == "chain":
                key = "chain-truncated-in-place"
            elif damaged and damaged[1] == "manifest":
                key = "manifest-final-name"
            cs.violation(
                key,
                {"kind": "crash-followup", "cmd": cmd, "exit": r.exit, "exc": r.exc_class, "event": ctx["event"], "role": ctx["role"], "mode": ctx["mode"]},
                {**ctx, "out": r.text[-300:], "exception": r.brief().get("exception")},
            )
            break
        if r.exit not in (0, 10, 11, 21, 30):
            cs.violation("followup-unexpected-exit", {"kind": "crash-followup-exit", "cmd": cmd, "exit": r.exit}, {**ctx, "out": r.text[-300:]})
            break
