"""C18 — a flattened manifest faithfully summarises the history.

Oracle (O6): over all source manifests read with the independent reader, per path the set of formats ever recorded and the
earliest non-failed digest per format; snapshot of the source tree (I2); O4 for the two destination files.
Observed: records of the packinglist_*.mhl, listing of the destination, exit codes of flatten and verify -pl."""
import os
import shutil

from lxml import etree

from .. import classify, drive, env, hist, snap, world
from ..oracle import xmlread, xsdlite

TECHNIQUE = 'runtime monitoring: offline checker of the packing list against the earliest-non-failed-digest model of the source history, snapshot differ, verify -pl exit codes'
LEVEL = "exploration"
RULE = (
    "case = flat rename-free history with 1-6 generations: changing format sets, generations with failed entries (alter, seal, "
    "restore, seal), -sf generations covering part of the tree, patterns added later, files added later; then flatten into a "
    "fresh destination, verify -pl on the unchanged tree and after altering one recorded file; class = (generations, has failed "
    "entries, has -sf generation, formats ever recorded, pattern added later)"
)
ASSUMPTIONS = ["nested and renamed histories are excluded by the statement", "verify -pl == 0 is asserted only when every file on disk is recorded in some generation (otherwise 21 is the consistent answer)"]
MIN_DECIDING = {"flatten_judged": 100, "digests_compared": 500, "verify_pl_unchanged": 50, "verify_pl_altered": 50}

_schemas = {}


def budget(tier):
    return {"cases": 5000, "seconds": 55} if tier == "quick" else {"cases": 150000, "seconds": 600}


def init(tier):
    x = os.path.join(env.REPO, "xsd")
    _schemas["manifest"] = etree.XMLSchema(etree.parse(os.path.join(x, "ASCMHL.xsd")))
    _schemas["directory"] = etree.XMLSchema(etree.parse(os.path.join(x, "ASCMHLDirectory__combined.xsd")))


def run_case(cs):
    rng = cs.rng
    tree = world.gen_tree(rng, max_files=7, max_dirs=rng.choice([0, 2, 3]), min_files=1, classes=["plain", "plain", "space", "uni", "xml"])
    d = cs.dir()
    root = os.path.join(d, world.root_name(rng))
    dest = os.path.join(d, "dest")
    world.write_tree(root, tree)
    original = {k: v for k, v in tree.items() if v is not None}
    gens = rng.randint(1, 6)
    steps = []
    had_failed = had_sf = pat_later = False
    altered = {}
    recorded = set()
    # a travelling card: every generation is written under another zone (the creation date texts are then not in
    # lexicographic order), now and then with a clock that was set back
    travel = rng.random() < 0.2
    tnow = 1700000000 + rng.randint(0, 10**7)
    if travel:
        cs.count("travelling_histories")
    for g in range(gens):
        if travel:
            from .. import clock

            tnow += rng.choice([2, 60, 3600, 7200, 86400]) if rng.random() < 0.85 or g == 0 else -rng.choice([1800, 3600])
            clock.set_zone(rng.choice(["Pacific/Kiritimati", "Pacific/Pago_Pago", "UTC", "Asia/Tokyo", "America/Los_Angeles", "Europe/Berlin"]))
            clock.freeze(tnow)
        if g > 0:
            k = rng.random()
            # only files whose first record exists already: otherwise "restore" would not lead back to the recorded content
            files = sorted(f for f in recorded if os.path.exists(os.path.join(root, f)))
            if k < 0.3 and files and not altered:
                f = rng.choice(files)
                altered[f] = True
                with open(os.path.join(root, f), "wb") as fh:
                    fh.write(original[f] + b"#alt")
                steps.append(f"alter {f!r}")
            elif altered and k < 0.8:
                for f in list(altered):
                    with open(os.path.join(root, f), "wb") as fh:
                        fh.write(original[f])
                    del altered[f]
                steps.append("restore")
            elif k < 0.9:
                nm = "added%d.bin" % g
                original[nm] = b"added" + rng.randbytes(4)
                with open(os.path.join(root, nm), "wb") as fh:
                    fh.write(original[nm])
                steps.append(f"add {nm}")
        extra = []
        files = sorted(f for f in original)
        sealed_now = set(files)
        if g > 0 and rng.random() < 0.25 and files:
            sealed_now = set(rng.sample(files, min(len(files), rng.randint(1, 2))))
            for f in sorted(sealed_now):
                extra += ["-sf", os.path.join(root, f)]
            had_sf = True
        elif g > 0 and rng.random() < 0.2:
            # a pattern that arrives later and covers files which earlier generations recorded
            extra += ["-i", rng.choice(["*.never", "*.tmp", "*.bin", "*.txt", "*.mov"])]
            pat_later = True
        fm = world.gen_formats(rng)
        r = drive.run("create", [root] + world.fmt_args(fm) + extra)
        steps.append(f"g{g + 1} {fm} {'sf' if '-sf' in extra else ''} => {r.exit}")
        if r.internal or r.exit not in (0, 11):
            cs.skip("seal-unexpected-exit")
            return
        if r.exit == 11:
            had_failed = True
        recorded |= sealed_now
    for f in list(altered):
        with open(os.path.join(root, f), "wb") as fh:
            fh.write(original[f])
    kind_swapped = False
    if rng.random() < 0.08 and not altered:
        # a path changes its kind: a recorded file makes room for a folder of the same name (or a recorded folder for a
        # file), sealed once more; the earlier file records stay part of "every file path ever recorded"
        cand = sorted(f for f in recorded if os.path.isfile(os.path.join(root, f)) and not os.path.islink(os.path.join(root, f)))
        dcand = sorted(x for x, v in world.read_tree(root).items() if v is None and any(r2.startswith(x + "/") for r2 in recorded))
        if cand and (not dcand or rng.random() < 0.6):
            f = rng.choice(cand)
            os.remove(os.path.join(root, f))
            os.makedirs(os.path.join(root, f))
            with open(os.path.join(root, f, "inner.bin"), "wb") as fh:
                fh.write(b"inner" + rng.randbytes(3))
            steps.append(f"file {f!r} replaced by a folder")
            kind_swapped = True
        elif dcand:
            x = rng.choice(dcand)
            shutil.rmtree(os.path.join(root, x))
            with open(os.path.join(root, x), "wb") as fh:
                fh.write(b"was a folder" + rng.randbytes(3))
            steps.append(f"folder {x!r} replaced by a file")
            kind_swapped = True
        if kind_swapped:
            r = drive.run("create", [root] + world.fmt_args(world.gen_formats(rng)))
            steps.append(f"g+ after kind swap => {r.exit}")
            cs.count("paths_that_changed_kind")
            if r.internal or r.exit not in (0, 10, 11):
                cs.skip("seal-unexpected-exit")
                return
    # ---- O6 over the source manifests
    ms, _ = hist.load_history(root, ".")
    want = {}
    for no, name, m in ms:
        for rec in m["hashes"]:
            if rec["kind"] != "file":
                continue
            w = want.setdefault(rec["path"], {})
            for f, dg, a, _hd in rec["entries"]:
                if a != "failed":
                    w.setdefault(f, dg)
    if rng.random() < 0.25 and want:
        # another card flattened into the same collection folder earlier (it shares a relative path, other content)
        other = os.path.join(d, "OtherCard")
        shared = rng.choice(sorted(want))
        os.makedirs(os.path.dirname(os.path.join(other, shared)), exist_ok=True)
        with open(os.path.join(other, shared), "wb") as fh:
            fh.write(b"content of the other card" + rng.randbytes(4))
        ro = drive.run("create", [other] + world.fmt_args(sorted({f for w in want.values() for f in w})[:1] or ["md5"]))
        if ro.exit == 0:
            # explicit cwd: no re-spelling of the root argument here.  (With the root given as "." the tool names the
            # packing list "packinglist_._<time>.mhl" for *every* card, so two cards flattened within one second
            # would overwrite each other - the same-second corner the statement is silent about.)
            drive.run("flatten", [other, dest], cwd=d)
            cs.count("destination_already_used")
    dest_before = snap.snap(dest) if os.path.isdir(dest) else {}
    before = snap.snap(root)
    fopts = []
    if rng.random() < 0.3:
        fopts.append("-v")
    if rng.random() < 0.2:
        fopts.append("-n")
    if rng.random() < 0.2:
        fopts += ["--author_name", world.gen_name(rng, rng.choice(["plain", "uni", "xml"]), ext=False), "--comment", "flattened " + world.gen_name(rng, "space", ext=False)]
    if rng.random() < 0.15:
        fopts += ["-i", "*.unrelated"]
    r = drive.run("flatten", [root, dest] + fopts)
    after = snap.snap(root)
    cs.evaluated()
    cs.count("flatten_judged")
    ever = sorted({f for w in want.values() for f in w})
    cs.cls("g%d" % gens, "failed" if had_failed else "", "sf" if had_sf else "", "+".join(ever), "pat" if pat_later else "")
    ctx = {"steps": steps}
    if r.internal:
        cs.violation(classify.internal_key(r), classify.internal_sig(r, "flatten"), {**ctx, **r.brief()})
        return
    if r.exit != 0:
        cs.violation("flatten-nonzero", {"kind": "flatten-exit", "exit": r.exit}, {**ctx, "out": r.text[-400:]})
        return
    df = snap.diff(before, after)
    if not snap.empty(df):
        cs.violation("flatten-modifies-source", {"kind": "source-changed"}, {**ctx, "diff": {k: (v if isinstance(v, list) else list(v))[:3] for k, v in df.items()}})
    dest_after = snap.snap(dest)
    found = sorted(k for k, v in dest_after.items() if v[0] == "f" and dest_before.get(k) != v)
    pls = [f for f in found if os.path.basename(f).startswith("packinglist_") and f.endswith(".mhl") and f not in dest_before]
    cols = [f for f in found if os.path.basename(f) == "ascmhl_collection.xml"]
    if len(pls) != 1 or len(cols) != 1 or len(found) != 2:
        cs.violation("flatten-destination-content", {"kind": "dest-files", "packinglists": len(pls), "collections": len(cols), "total": len(found)}, {**ctx, "found": found})
        return
    pl = os.path.join(dest, pls[0])
    for p, kind in ((pl, "manifest"), (os.path.join(dest, cols[0]), "directory")):
        doc = etree.parse(p)
        if not _schemas[kind].validate(doc):
            cs.violation("flatten-output-xsd-invalid", {"kind": "xsd", "file": kind, "msg": str(_schemas[kind].error_log.last_error.message)[:100]}, ctx)
    m = xmlread.read_manifest(pl)
    if m["processinfo"]["process"] != "flatten":
        cs.violation("flatten-process-type", {"kind": "process-type", "got": m["processinfo"]["process"]}, ctx)
    got = {}
    for rec in m["hashes"]:
        if rec["kind"] != "file":
            cs.violation("flatten-directory-record", {"kind": "dir-record"}, {**ctx, "path": rec["path"]})
            continue
        if rec["path"] in got:
            cs.violation("flatten-duplicate-record", {"kind": "dup-record"}, {**ctx, "path": rec["path"]})
        g2 = got.setdefault(rec["path"], {})
        for f, dg, a, _hd in rec["entries"]:
            g2.setdefault(f, []).append(dg)
    if set(got) != set(want):
        cs.violation("flatten-record-set", {"kind": "record-set", "missing": bool(set(want) - set(got)), "extra": bool(set(got) - set(want))}, {**ctx, "missing": sorted(set(want) - set(got))[:4], "extra": sorted(set(got) - set(want))[:4]})
    for p in set(got) & set(want):
        for f in set(want[p]) | set(got[p]):
            cs.count("digests_compared")
            gl = got[p].get(f, [])
            if len(gl) != 1 or gl[0] != want[p].get(f):
                cs.violation(
                    "flatten-digest-not-earliest-nonfailed",
                    {"kind": "flatten-digest", "count": len(gl), "format_unexpected": f not in want[p], "history_had_failed": had_failed},
                    {**ctx, "path": p, "format": f, "got": gl, "want": want[p].get(f)},
                )
    if kind_swapped:
        return  # files are gone from the tree: what verify -pl has to say about that is C03's business
    # ---- verify -pl
    ondisk = sorted(k for k, v in world.read_tree(root).items() if v is not None)
    all_recorded = all(f in want for f in ondisk)
    r = drive.run("verify", [root, "-pl", pl])
    cs.evaluated()
    if r.internal:
        cs.violation(classify.internal_key(r), classify.internal_sig(r, "verify-pl"), {**ctx, **r.brief()})
        return
    if all_recorded:
        cs.count("verify_pl_unchanged")
        if r.exit != 0:
            cs.violation("verify-pl-unchanged-nonzero", {"kind": "verify-pl", "exit": r.exit, "history_had_failed": had_failed, "sf": had_sf}, {**ctx, "out": r.text[-400:]})
    else:
        cs.skip("verify-pl-unrecorded-file-on-disk")
    # a file that the (latest) patterns cover is ignored by verify -pl, altering it proves nothing
    from ..oracle import ignoreref

    eff = ms[-1][2]["processinfo"]["ignore"] or list(ignoreref.DEFAULTS)
    cand = sorted(pth for pth in want if ignoreref.match(eff, pth) is False)
    victim = rng.choice(cand) if cand else None
    if victim and os.path.exists(os.path.join(root, victim)):
        with open(os.path.join(root, victim), "ab") as fh:
            fh.write(b"!")
        r = drive.run("verify", [root, "-pl", pl])
        cs.evaluated()
        cs.count("verify_pl_altered")
        if r.internal:
            cs.violation(classify.internal_key(r), classify.internal_sig(r, "verify-pl"), {**ctx, **r.brief()})
        elif r.exit == 0:
            cs.violation("verify-pl-altered-zero", {"kind": "verify-pl-altered", "exit": r.exit}, {**ctx, "victim": victim})
    cs.sample({"steps": steps, "paths": sorted(want)[:5], "formats_ever": ever})
