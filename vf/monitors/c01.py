"""C01 — file digests are the standard algorithms over the exact bytes.

Oracle: O1 (system libxxhash via ctypes, coreutils md5sum/sha1sum/sha512sum, own base-58 codec, pure-python XXH64).
Observed: return values of every library entry point, digest text written by `create`, exit code of `verify` on the
untouched and on a one-bit-flipped file, stdout of the `hash` command; read sizes/counts inside the hashing loops (I3).
"""
import hashlib
import itertools
import os

from .. import drive, env, world
from ..oracle import refhash, xmlread

TECHNIQUE = 'runtime monitoring: differential oracle (system libxxhash via ctypes, coreutils, own base-58 codec) on every digest the real entry points return, record or print; read sizes observed through an injected open()'
LEVEL = "exploration"
RULE = (
    "case = (size from a boundary table around the observed read-chunk size, byte pattern, format subset) driven through "
    "all entry points; class = (format, size class, entry point) with size>0, plus c4 pad-length and codec classes"
)
ASSUMPTIONS = [
    "libxxhash.so.0 (system build) and coreutils implement the standard algorithms; validated against published vectors at start-up",
    "30 % of the cases inject short reads (read(n) returning fewer bytes although more follow): legal for read(2) and 'read chunking' is named in the statement",
]
MIN_DECIDING = {"digest_compared": 50, "cli_create_digest": 5, "verify_flip_11": 3}

MIB = 1 << 20
SMALL = [0, 1, 2, 3, 15, 16, 17, 31, 32, 33, 63, 64, 65, 127, 128, 129, 240, 241, 255, 256, 257, 1023, 1024, 4095, 4096, 4097, 65535, 65536, 65537]
ALL_FMT = ["md5", "sha1", "xxh128", "xxh3", "xxh64", "c4", "xxh32"]
CLI_FMT = ["md5", "sha1", "xxh128", "xxh3", "xxh64", "c4"]

_obs = {"chunk": MIB, "reads": []}


def budget(tier):
    return {"cases": 1200, "seconds": 50} if tier == "quick" else {"cases": 24000, "seconds": 600}


class _F:
    def __init__(self, f, path=None):
        self._f = f
        self._path = path

    def read(self, n=-1):
        if _obs.get("touch") and self._path is not None:
            # another process touches the file while it is read (backup tool, indexer): same bytes, new time stamp
            try:
                t = _obs["touch"].randint(1, 2_000_000_000)
                os.utime(self._path, (t, t))
                _obs["touched"] = _obs.get("touched", 0) + 1
            except OSError:
                pass
            self._path = None
        sr = _obs.get("short")
        if sr is not None and isinstance(n, int) and n > 1:
            # a short read: fewer bytes than asked for although more follow (pipes, network file systems, signals)
            n = sr.randint(1, n) if sr.random() < 0.5 else n
        b = self._f.read(n)
        _obs["reads"].append((n, len(b)))
        return b

    def __enter__(self):
        return self

    def __exit__(self, *a):
        self._f.close()
        return False

    def __getattr__(self, k):
        return getattr(self._f, k)


def _open(path, mode="r", *a, **kw):
    f = open(path, mode, *a, **kw)
    if "b" in mode and "r" in mode and "+" not in mode:
        return _F(f, path)
    return f


def init(tier):
    import ascmhl.hasher as H

    H.open = _open  # I3: module global shadows the builtin inside ascmhl.hasher only
    # observe the chunk size the loops really use
    d = env.new_scratch()
    p = os.path.join(d, "probe")
    with open(p, "wb") as f:
        f.write(b"\0" * (5 * MIB + 3))
    _obs["reads"].clear()
    H.hash_file(p, "md5")
    sizes = [n for n, got in _obs["reads"] if isinstance(n, int) and n > 0]
    if sizes:
        _obs["chunk"] = max(set(sizes), key=sizes.count)
    env.drop_scratch(d)
    _obs["pads"] = _find_pads(4 if tier == "thorough" else 3)


def _find_pads(maxpad):
    """tiny inputs whose c4 id has exactly k leading '1' pad characters, k = 0..maxpad-1 (brute force over sha512)"""
    found = {}
    i = 0
    limit = 3_000_000 if maxpad >= 4 else 200_000
    while len(found) < maxpad and i < limit:
        data = b"pad" + i.to_bytes(4, "big")
        v = int.from_bytes(hashlib.sha512(data).digest(), "big")
        k = 0
        t = 58**87
        while v < t and k < 6:
            k += 1
            t //= 58
        if k < maxpad and k not in found:
            found[k] = data
        i += 1
    return found


def _sizes(rng):
    c = _obs["chunk"]
    big = [c - 1, c, c + 1, 2 * c - 1, 2 * c, 2 * c + 1, 3 * c + 17]
    return rng.choice(SMALL) if rng.random() < 0.6 else rng.choice(big)


def _size_class(n):
    c = _obs["chunk"]
    if n == 0:
        return "0"
    if n < c:
        return "<chunk"
    if n == c:
        return "=chunk"
    if n < 2 * c:
        return "1-2chunks" if n > c + 1 else "chunk+1"
    if n % c == 0:
        return "k*chunk"
    return ">2chunks"


def _cmp(cs, fmt, entry, got, want, n):
    cs.evaluated()
    cs.count("digest_compared")
    cs.count("entry:" + entry)
    if n > 0:
        cs.cls(fmt, _size_class(n), entry)
    if got != want:
        cs.violation(
            "digest-mismatch" if refhash.well_formed(fmt, got if isinstance(got, str) else "") else "digest-malformed",
            {"kind": "digest-mismatch", "format": fmt, "entry": entry, "size_class": _size_class(n)},
            {"size": n, "got": got, "want": want},
        )
        return False
    return True


def run_case(cs):
    import ascmhl.hasher as H

    rng = cs.rng
    _obs["short"] = None
    _obs["touch"] = None
    mode = rng.random()
    force_large = cs.seed_str.endswith((":0", ":1", ":2"))
    if force_large:
        mode = 1.0
    if mode < 0.12:
        return _codec_case(cs, H)
    if mode < 0.18:
        return _pad_case(cs, H)
    if mode < 0.24:
        return _symlink_case(cs, H)
    if mode < 0.28:
        return _threads_case(cs, H)
    n = _sizes(rng)
    large = None
    if force_large or (cs.tier == "thorough" and rng.random() < 0.0004):
        # camera originals: well beyond any buffer the reader might reuse (64 full chunks and more)
        large = rng.choice([64 * MIB + 1, 65 * MIB + 5, 64 * MIB, 130 * MIB + 77])
        n = large
        cs.count("files_of_64MiB_and_more")
    data = world.gen_bytes(rng, n) if large is None else rng.randbytes(n)
    _obs["short"] = env.rng_for(cs.seed_str, "short-reads") if rng.random() < 0.3 else None
    if _obs["short"] is not None:
        cs.count("cases_with_injected_short_reads")
    _obs["touch"] = env.rng_for(cs.seed_str, "touch") if rng.random() < 0.15 else None
    if _obs["touch"] is not None:
        cs.count("cases_with_time_stamp_touched_during_read")
    k = rng.choice([1, 1, 2, 3, 6, 7])
    subset = rng.sample(ALL_FMT, k)
    coreutils = rng.random() < 0.15
    want = {f: refhash.digest(f, data, coreutils=coreutils and f in ("md5", "sha1", "c4")) for f in subset}
    if "xxh64" in subset and n <= 70000:
        if refhash.py_xxh64(data) != want["xxh64"]:
            raise RuntimeError("oracle disagreement xxh64")
    d = cs.dir()
    root = os.path.join(d, "R")
    os.makedirs(root)
    fname = world.gen_name(rng, rng.choice(["plain", "space", "uni"]))
    p = os.path.join(root, fname)
    with open(p, "wb") as f:
        f.write(data)
    cs.count("size_class:" + _size_class(n))
    cs.count("subset_size:%d" % len(subset))
    # --- library entry points
    for f in subset:
        _cmp(cs, f, "hash_data", H.hash_data(data, f), want[f], n)
        _obs["reads"].clear()
        _cmp(cs, f, "hash_file", H.hash_file(p, f), want[f], n)
        iters = sum(1 for a, got in _obs["reads"] if got > 0)
        cs.count("loop_iters:%s" % (iters if iters < 4 else "4+"))
        h = H.new_hasher_for_hash_type(f)
        pos = 0
        pieces = 0
        peek = rng.random() < 0.5
        reuse_buffer = rng.random() < 0.4
        shared = bytearray(rng.choice([4000, 8192, 65536]))
        if reuse_buffer:
            cs.count("streaming_from_a_reused_buffer")
        while pos < n:
            step = rng.choice([1, 7, 64, 4096, 65536, MIB, n])
            if peek and pieces in (0, 1, 3):
                # a running digest is asked for in between (progress display): it is the digest of the prefix fed so
                # far and must not freeze what the hasher answers later on
                if h.string_digest() != refhash.digest(f, data[:pos]) and n <= 70000:
                    cs.violation("digest-mismatch", {"kind": "digest-mismatch", "format": f, "entry": "streaming-prefix", "size_class": _size_class(n)}, {"prefix": pos})
                cs.count("running_digests_taken")
            piece = data[pos : pos + step]
            if reuse_buffer and len(piece) <= len(shared):
                # the read-into-one-buffer idiom (bytearray + readinto + memoryview, as hashlib.file_digest does): what
                # was handed over must have been taken in before update() returns
                shared[: len(piece)] = piece
                h.update(memoryview(shared)[: len(piece)])
            else:
                h.update(piece)
            pos += step
            pieces += 1
            if pieces > 64:
                h.update(data[pos:])
                break
        _cmp(cs, f, "streaming", h.string_digest(), want[f], n)
        rb = H.bytes_for_hash_string(want[f], f)
        cs.evaluated()
        if rb != refhash.raw(f, want[f]):
            cs.violation("decode-mismatch", {"kind": "decode-mismatch", "format": f}, {"digest": want[f]})
    dup = list(subset) + ([rng.choice(subset)] if rng.random() < 0.3 else [])
    if len(dup) > len(subset):
        cs.count("multi_format_calls_with_repeated_format")
    _obs["reads"].clear()
    multi = H.multiple_format_hash_file(p, list(dup))
    iters = sum(1 for a, got in _obs["reads"] if got > 0)
    cs.count("multi_loop_iters:%s" % (iters if iters < 4 else "4+"))
    for f in subset:
        _cmp(cs, f, "multi_file", multi.get(f), want[f], n)
    multid = H.multiple_format_hash_data(data, list(subset))
    for f in subset:
        _cmp(cs, f, "multi_data", multid.get(f), want[f], n)
    # --- CLI entry points
    cli = [f for f in subset if f in CLI_FMT]
    if cli and (n <= 70000 or large is not None or rng.random() < 0.5):
        r = drive.run("create", [root] + world.fmt_args(cli + ([rng.choice(cli)] if rng.random() < 0.25 else [])))
        if r.exit != 0:
            cs.violation("create-failed", {"kind": "create-failed", "exit": r.exit, "exc": r.exc_class}, r.brief())
            return
        ms = world.manifests(root)
        m = xmlread.read_manifest(os.path.join(root, "ascmhl", ms[-1]))
        rec = [h for h in m["hashes"] if h["kind"] == "file"]
        if len(rec) != 1:
            cs.violation("create-record-count", {"kind": "create-record-count", "n": len(rec)}, {})
            return
        got = {e[0]: e[1] for e in rec[0]["entries"]}
        for f in cli:
            cs.count("cli_create_digest")
            _cmp(cs, f, "create", got.get(f), want[f], n)
        f0 = rng.choice(cli)
        r = drive.run("hash", [p, "-h", f0])
        line = (r.out or "").strip()
        cs.count("cli_hash")
        _cmp(cs, f0, "hash_cmd", line.rsplit(" = ", 1)[-1] if " = " in line else line, want[f0], n)
        r = drive.run("verify", [root])
        cs.evaluated()
        cs.count("verify_untouched")
        if r.exit != 0:
            cs.violation("verify-untouched-nonzero", {"kind": "verify-untouched", "exit": r.exit, "exc": r.exc_class, "size_class": _size_class(n)}, r.brief())
        if n > 0:
            b = bytearray(data)
            i = rng.choice([0, n - 1, rng.randrange(n)])
            b[i] ^= 1 << rng.randrange(8)
            st = os.stat(p)
            with open(p, "wb") as fh:
                fh.write(bytes(b))
            os.utime(p, ns=(st.st_atime_ns, st.st_mtime_ns))
            r = drive.run("verify", [root])
            cs.evaluated()
            cs.count("verify_flip_11" if r.exit == 11 else "verify_flip_other")
            cs.cls("verify-flip", _size_class(n), "first" if i == 0 else "last" if i == n - 1 else "mid")
            if r.exit != 11:
                cs.violation(
                    "flip-undetected",
                    {"kind": "flip-undetected", "exit": r.exit, "size_class": _size_class(n), "pos": "first" if i == 0 else "last" if i == n - 1 else "mid"},
                    {"size": n, "offset": i, **r.brief()},
                )
    _obs["short"] = None
    _obs["touch"] = None
    cs.sample({"size": n, "formats": subset, "name": fname, "want": {f: want[f] for f in subset[:2]}})


def _symlink_case(cs, H):
    """a file reached through a symbolic link has the digest of the bytes it points to, in every entry point"""
    rng = cs.rng
    d = cs.dir()
    root = os.path.join(d, "R")
    os.makedirs(os.path.join(root, "sub"))
    n = rng.choice([1, 5, 40, 300, 4097, 70000, _obs["chunk"] + 1])
    data = world.gen_bytes(rng, n)
    with open(os.path.join(root, "sub", "real.bin"), "wb") as f:
        f.write(data)
    link = os.path.join(root, rng.choice(["l.bin", "sub/l.bin", "a-much-longer-link-name-than-the-content.bin"]))
    os.symlink(rng.choice([os.path.join(root, "sub", "real.bin"), os.path.relpath(os.path.join(root, "sub", "real.bin"), os.path.dirname(link))]), link)
    subset = rng.sample(CLI_FMT, rng.choice([1, 2, 6]))
    want = {f: refhash.digest(f, data) for f in subset}
    cs.count("symlinked_file_cases")
    for f in subset:
        _cmp(cs, f, "hash_file-symlink", H.hash_file(link, f), want[f], n)
    multi = H.multiple_format_hash_file(link, list(subset))
    for f in subset:
        _cmp(cs, f, "multi_file-symlink", multi.get(f), want[f], n)
    r = drive.run("create", [root] + world.fmt_args(subset))
    if r.exit != 0:
        cs.violation("create-failed", {"kind": "create-failed", "exit": r.exit, "exc": r.exc_class}, r.brief())
        return
    m = xmlread.read_manifest(os.path.join(root, "ascmhl", world.manifests(root)[-1]))
    rel = os.path.relpath(link, root)
    for h in m["hashes"]:
        if h["kind"] == "file" and h["path"] in (rel, "sub/real.bin"):
            got = {e[0]: e[1] for e in h["entries"]}
            for f in subset:
                _cmp(cs, f, "create-symlink" if h["path"] == rel else "create", got.get(f), want[f], n)
    f0 = subset[0]
    r = drive.run("hash", [link, "-h", f0])
    _cmp(cs, f0, "hash_cmd-symlink", (r.out or "").strip().rsplit(" = ", 1)[-1], want[f0], n)
    r = drive.run("verify", [root])
    cs.evaluated()
    if r.exit != 0:
        cs.violation("verify-untouched-nonzero", {"kind": "verify-untouched", "exit": r.exit, "exc": r.exc_class, "size_class": "symlink"}, r.brief())


def _threads_case(cs, H):
    """the library entry points used from several threads at once (an application hashing files in workers)"""
    import threading

    rng = cs.rng
    d = cs.dir()
    files = []
    for i in range(6):
        data = rng.randbytes(rng.choice([3 * MIB + i, 2 * MIB - 1, MIB + 7 * i]))
        p = os.path.join(d, "t%d.bin" % i)
        with open(p, "wb") as f:
            f.write(data)
        fm = rng.sample(CLI_FMT, 2)
        files.append((p, fm, {f: refhash.digest(f, data) for f in fm}, len(data)))
    out = {}

    def work(i):
        p, fm, want, n = files[i]
        res = []
        for _ in range(3):
            res.append((H.hash_file(p, fm[0]), H.multiple_format_hash_file(p, list(fm))))
        out[i] = res

    ts = [threading.Thread(target=work, args=(i,)) for i in range(len(files))]
    for t in ts:
        t.start()
    for t in ts:
        t.join(120)
    cs.count("concurrent_hashing_cases")
    for i, (p, fm, want, n) in enumerate(files):
        for single, multi in out.get(i, []):
            _cmp(cs, fm[0], "hash_file-threads", single, want[fm[0]], n)
            for f in fm:
                _cmp(cs, f, "multi_file-threads", multi.get(f), want[f], n)


class _Stub:
    def __init__(self, hx):
        self._hx = hx

    def hexdigest(self):
        return self._hx

    def update(self, b):
        pass


def _codec_case(cs, H):
    rng = cs.rng
    vals = []
    k = rng.randint(1, 88)
    for v in (0, 1, 57, 58, 58**k - 1, 58**k, 58**k + 1, 2**512 - 1, rng.getrandbits(512), rng.getrandbits(512 - 8 * rng.randint(0, 8))):
        if 0 <= v < 2**512:
            vals.append(v)
    for v in vals:
        try:
            c = H.C4()
            if not hasattr(c, "hasher"):
                cs.skip("c4-codec-not-stubbable")
                return
            c.hasher = _Stub("%0128x" % v)
            s = c.string_digest()
        except Exception as e:
            cs.violation("c4-codec-exception", {"kind": "c4-codec-exception", "exc": type(e).__name__}, {"value": hex(v)})
            continue
        want = refhash.c4_encode(v.to_bytes(64, "big"))
        cs.evaluated()
        cs.count("c4_codec_values")
        pad = len(want) - 2 - len(want[2:].lstrip("1"))
        cs.cls("c4-codec", "pad%d" % min(pad, 9), "k%d" % (k // 11))
        if s != want:
            cs.violation("c4-encode-mismatch", {"kind": "c4-encode", "pad": min(pad, 9)}, {"value": hex(v), "got": s, "want": want})
            continue
        try:
            back = H.C4.bytes_from_string_digest(s)
            back2 = H.bytes_for_hash_string(s, "c4")
        except Exception as e:
            cs.violation("c4-codec-exception", {"kind": "c4-decode-exception", "exc": type(e).__name__}, {"value": hex(v)})
            continue
        cs.evaluated()
        if back != v.to_bytes(64, "big") or back2 != back:
            cs.violation("c4-decode-mismatch", {"kind": "c4-decode", "pad": min(pad, 9)}, {"value": hex(v)})
    cs.sample({"c4_codec_values": [hex(v)[:20] for v in vals[:3]]})


def _pad_case(cs, H):
    """c4 ids with 0..3 leading pad characters through the real file path and `create`"""
    d = cs.dir()
    root = os.path.join(d, "R")
    os.makedirs(root)
    for k, data in sorted(_obs["pads"].items()):
        with open(os.path.join(root, "pad%d.bin" % k), "wb") as f:
            f.write(data)
    r = drive.run("create", [root, "-h", "c4"])
    if r.exit != 0:
        cs.violation("create-failed", {"kind": "create-failed", "exit": r.exit, "exc": r.exc_class}, r.brief())
        return
    m = xmlread.read_manifest(os.path.join(root, "ascmhl", world.manifests(root)[-1]))
    got = {h["path"]: dict((e[0], e[1]) for e in h["entries"]) for h in m["hashes"] if h["kind"] == "file"}
    for k, data in sorted(_obs["pads"].items()):
        want = refhash.digest("c4", data, coreutils=True)
        assert want[2:].startswith("1" * k) and not want[2:].startswith("1" * (k + 1))
        cs.count("c4_pad_len:%d" % k)
        _cmp(cs, "c4", "create-pad%d" % k, got.get("pad%d.bin" % k, {}).get("c4"), want, len(data))
        _cmp(cs, "c4", "hash_file-pad%d" % k, H.hash_file(os.path.join(root, "pad%d.bin" % k), "c4"), want, len(data))
    r = drive.run("verify", [root])
    cs.evaluated()
    if r.exit != 0:
        cs.violation("verify-untouched-nonzero", {"kind": "verify-untouched", "exit": r.exit, "exc": r.exc_class, "size_class": "pad"}, r.brief())


def extra_coverage(merged):
    return {"observed_read_chunk": _obs["chunk"]}
