"""C17 — renamed files keep their identity when rename detection is on.

Oracle: the rename map the harness applied (old path -> new path, contents pairwise distinct and unchanged).
Observed: exit code and 'missing file(s)' output of create -dr, <previousPath> elements of the new manifest (O3), exit
codes of verify / diff / create afterwards, verify after an additional content change, and the same tree without -dr."""
import os
import shutil

from .. import classify, drive, hist, world
from ..oracle import xmlread

TECHNIQUE = 'runtime monitoring: rename-map oracle over create -dr manifests, follow-up command exit codes, multi-generation rename chains'
LEVEL = "exploration"
RULE = (
    "case = single-history tree with pairwise distinct file contents (25 % with one zero-length file), 1-3 prior generations, then 1-6 simultaneous file renames "
    "(in place / move between existing directories / move into a directory created for it) plus 0-3 unrelated new files, sealed "
    "with create -dr using the same or another format set; optional second rename step in a later generation (b->c or back "
    "to a); class = (rename classes, set size, format relation, prior generations, second step)"
)
ASSUMPTIONS = ["nested histories and directory renames are outside the statement ('files ... of one history'); generated directory renames are not judged"]
MIN_DECIDING = {"dr_runs_judged": 100, "previous_path_checked": 150, "followup_commands": 300, "without_dr_judged": 50}


def budget(tier):
    return {"cases": 1300, "seconds": 55} if tier == "quick" else {"cases": 150000, "seconds": 600}


def _apply_renames(rng, root, files, dirs, n, tag):
    """returns {old: new}, classes"""
    ren = {}
    classes = set()
    taken = set(files)
    for old in rng.sample(files, min(len(files), n)):
        k = rng.choice(["inplace", "inplace", "move", "newdir", "caseonly"])
        base = os.path.basename(old)
        if k == "caseonly":
            # the new name differs from the recorded one only in upper / lower case (A001C003.MOV -> a001c003.mov)
            nb = base.swapcase() if base.swapcase() != base else base + "X"
            new = os.path.join(os.path.dirname(old), nb)
            if nb.lower() != base.lower():
                k = "inplace"
        elif k == "inplace":
            new = os.path.join(os.path.dirname(old), tag + world.gen_name(rng, rng.choice(["plain", "space", "uni"])))
        elif k == "move" and dirs:
            dst = rng.choice([""] + dirs)
            if dst == os.path.dirname(old):
                new = os.path.join(dst, tag + base)
                k = "inplace"
            else:
                new = os.path.join(dst, base if rng.random() < 0.5 else tag + base)
        else:
            k = "newdir"
            nd = os.path.join(rng.choice([""] + dirs), tag + "dir" + str(len(ren)))
            os.makedirs(os.path.join(root, nd), exist_ok=True)
            new = os.path.join(nd, base)
        new = new.lstrip("/")
        if new in taken or os.path.exists(os.path.join(root, new)):
            continue
        os.rename(os.path.join(root, old), os.path.join(root, new))
        if rng.random() < 0.3:
            os.utime(os.path.join(root, new))  # e.g. a move by copy + delete: same bytes, modification time is "now"
            classes.add("touched")
        taken.add(new)
        ren[old] = new
        classes.add(k)
    return ren, classes


def _nested_namesake(cs):
    """a file of the outer history is renamed to a name that a file of a nested history also has (relative to that nested
    history): the nested file has nothing to do with the rename"""
    rng = cs.rng
    d = cs.dir()
    root = os.path.join(d, world.root_name(rng))
    sub = rng.choice(["sub", "Card A", "K"])
    name = rng.choice(["a.txt", "clip 1.mov", "x"])
    os.makedirs(os.path.join(root, sub))
    for rel, data in ((sub + "/" + name, b"nested" + rng.randbytes(3)), ("b-" + name, b"outer" + rng.randbytes(3)), ("other.bin", b"o" + rng.randbytes(3))):
        with open(os.path.join(root, rel), "wb") as f:
            f.write(data)
    fm = world.gen_formats(rng)[:2]
    steps = []
    for tgt in ([os.path.join(root, sub)], [root]) if rng.random() < 0.7 else ([root], [os.path.join(root, sub)], [root]):
        r = drive.run("create", tgt + world.fmt_args(fm))
        steps.append(f"create {os.path.relpath(tgt[0], root)} => {r.exit}")
        if r.exit != 0:
            cs.skip("prior-seal-failed")
            return
    os.rename(os.path.join(root, "b-" + name), os.path.join(root, name))
    steps.append(f"rename 'b-{name}' -> '{name}' (a nested history holds '{sub}/{name}')")
    cs.count("renamed_to_name_of_nested_file")
    ren = {"b-" + name: name}
    _dr_step(cs, root, fm, ren, {"steps": steps, "renames": ren, "classes": ["nested-namesake"]}, steps, "same", {"nested-namesake"}, 1, "nested-namesake")


def _twin_rename(cs):
    """two files that have the same path inside their own histories (outer notes.txt and nested A001/notes.txt, or
    A001/Clips/c.mov and A002/Clips/c.mov on two cards with a history each) are renamed in one step"""
    rng = cs.rng
    d = cs.dir()
    root = os.path.join(d, world.root_name(rng))
    name = rng.choice(["notes.txt", "clip 1.mov", "x"])
    inner = rng.choice(["", "Clips/"])
    if rng.random() < 0.5:
        hs = [".", rng.choice(["A001", "Card A"])]
    else:
        hs = ["A001", "A002"] + (["A003"] if rng.random() < 0.3 else [])
    olds = {}
    for i, h in enumerate(hs):
        rel = ("" if h == "." else h + "/") + inner + name
        os.makedirs(os.path.dirname(os.path.join(root, rel)), exist_ok=True)
        with open(os.path.join(root, rel), "wb") as f:
            f.write(b"twin%d" % i + rng.randbytes(4))
        olds[h] = rel
    with open(os.path.join(root, "other.bin"), "wb") as f:
        f.write(b"o" + rng.randbytes(3))
    fm = world.gen_formats(rng)[:2]
    steps = []
    outer_sealed = "." in hs or rng.random() < 0.6
    if not outer_sealed:
        # the folder that holds the cards has never been sealed itself: its first generation is the -dr run
        cs.count("dr_runs_on_outer_folder_without_generation")
    for h in [x for x in hs if x != "."] + (["."] if outer_sealed else []):
        r = drive.run("create", [root if h == "." else os.path.join(root, h)] + world.fmt_args(fm))
        steps.append(f"create {h} => {r.exit}")
        if r.exit != 0:
            cs.skip("prior-seal-failed")
            return
    ren = {}
    for i, h in enumerate(hs):
        nw = os.path.join(os.path.dirname(olds[h]), "r%d-" % i + name)
        os.rename(os.path.join(root, olds[h]), os.path.join(root, nw))
        ren[olds[h]] = nw
    steps.append(f"renamed {ren}")
    cs.count("files_with_same_path_in_their_histories_renamed_in_one_step")
    ctx = {"steps": steps, "renames": ren, "classes": ["twin-rename"]}
    r, new, before, after = hist.create(root, fm, ["-dr"])
    steps.append(f"create -dr => {r.exit}")
    cs.evaluated()
    cs.count("dr_runs_judged")
    cs.cls("twin-rename", "n%d" % len(ren), "root-in" if "." in hs else "cards" if outer_sealed else "cards-outer-unsealed", r.exit)
    if r.internal:
        cs.violation(classify.internal_key(r), classify.internal_sig(r, "create-dr"), {**ctx, **r.brief()})
        return
    if r.exit != 0:
        cs.violation("dr-create-nonzero", {"kind": "dr-exit", "exit": r.exit, "stage": "twin", "classes": ["twin-rename"], "outer_sealed": outer_sealed}, {**ctx, "out": r.text[-500:]})
        return
    for h in hs:
        names = [n for n in new.get(h, []) if n.endswith(".mhl")]
        if len(names) != 1:
            cs.violation("dr-no-manifest", {"kind": "dr-manifest-count", "nested": h != "."}, {**ctx, "history": h})
            continue
        m = xmlread.read_manifest_bytes(after[h][names[0]])
        recs = {x["path"]: x for x in m["hashes"] if x["kind"] == "file"}
        old_in = olds[h] if h == "." else olds[h][len(h) + 1 :]
        new_in = ren[olds[h]] if h == "." else ren[olds[h]][len(h) + 1 :]
        cs.count("previous_path_checked")
        rec = recs.get(new_in)
        if rec is None:
            cs.violation("renamed-file-not-recorded", {"kind": "dr-record-missing", "stage": "twin"}, {**ctx, "history": h, "new": new_in})
        elif rec["previousPath"] != old_in:
            cs.violation("previous-path-wrong", {"kind": "dr-previous-path", "got_none": rec["previousPath"] is None, "stage": "twin", "classes": ["twin-rename"]}, {**ctx, "history": h, "new": new_in, "got": rec["previousPath"], "want": old_in})
    for cmd in ("verify", "diff", "create"):
        r2 = drive.run(cmd, [root] + (world.fmt_args(fm) if cmd == "create" else []))
        steps.append(f"{cmd} => {r2.exit}")
        cs.evaluated()
        cs.count("followup_commands")
        if r2.internal:
            cs.violation(classify.internal_key(r2), classify.internal_sig(r2, cmd + "-after-dr"), {**ctx, **r2.brief()})
            return
        if r2.exit != 0:
            cs.violation("followup-after-dr-nonzero", {"kind": "after-dr", "cmd": cmd, "exit": r2.exit, "stage": "twin"}, {**ctx, "out": r2.text[-500:]})
            return


def _folder_move(cs):
    """a folder is renamed, which moves every file below it.  With directory hashes in all generations the run exits 0;
    when a generation has none (-n) the folder itself cannot be recognised and may be reported missing (10), the files
    still get their previous paths and nothing aborts"""
    rng = cs.rng
    d = cs.dir()
    root = os.path.join(d, world.root_name(rng))
    old_dir = rng.choice(["B", "Reel 1", "sub/B"])
    files = {}
    for i in range(rng.randint(1, 3)):
        files[old_dir + "/f%d.bin" % i] = b"moved%d" % i + rng.randbytes(4)
    files["A/keep.bin"] = b"keep" + rng.randbytes(3)
    files["top.bin"] = b"top" + rng.randbytes(3)
    for rel, data in files.items():
        os.makedirs(os.path.dirname(os.path.join(root, rel)), exist_ok=True)
        with open(os.path.join(root, rel), "wb") as f:
            f.write(data)
    fm = world.gen_formats(rng)[:2]
    steps = []
    any_n = False
    for g in range(rng.randint(1, 2)):
        n = rng.random() < 0.4
        any_n = any_n or n
        r = drive.run("create", [root] + world.fmt_args(fm) + (["-n"] if n else []))
        steps.append(f"create{' -n' if n else ''} => {r.exit}")
        if r.exit != 0:
            cs.skip("prior-seal-failed")
            return
    new_dir = os.path.join(os.path.dirname(old_dir), rng.choice(["C", "B renamed", "zz"]))
    os.rename(os.path.join(root, old_dir), os.path.join(root, new_dir))
    steps.append(f"folder {old_dir!r} -> {new_dir!r}")
    n = rng.random() < 0.3
    any_n = any_n or n
    cs.count("folder_moves" + ("_with_generation_without_directory_hashes" if any_n else ""))
    ren = {k: new_dir + k[len(old_dir):] for k in files if k.startswith(old_dir + "/")}
    ctx = {"steps": steps, "renames": ren, "classes": ["folder-move"], "any_n": any_n}
    r, new, before, after = hist.create(root, fm, ["-dr"] + (["-n"] if n else []))
    steps.append(f"create -dr{' -n' if n else ''} => {r.exit}")
    cs.evaluated()
    cs.count("dr_runs_judged")
    cs.cls("folder-move", "n" if any_n else "dh", r.exit)
    if r.internal:
        cs.violation(classify.internal_key(r), {**classify.internal_sig(r, "create-dr"), "folder_move": True}, {**ctx, **r.brief()})
        return
    named_missing = []
    if "missing file(s):" in r.text:
        for l in r.text.split("missing file(s):", 1)[1].splitlines()[1:]:
            if not l.startswith("  "):
                break
            named_missing.append(l[2:])
    if r.exit != 0 and not (any_n and r.exit == 10 and named_missing == [old_dir]):
        cs.violation("dr-create-nonzero", {"kind": "dr-exit", "exit": r.exit, "stage": "folder-move", "classes": ["folder-move"], "without_dir_hashes": any_n}, {**ctx, "out": r.text[-500:]})
        return
    names = [x for x in new.get(".", []) if x.endswith(".mhl")]
    if len(names) != 1:
        cs.violation("dr-no-manifest", {"kind": "dr-manifest-count"}, ctx)
        return
    m = xmlread.read_manifest_bytes(after["."][names[0]])
    recs = {x["path"]: x for x in m["hashes"] if x["kind"] == "file"}
    for old, nw in ren.items():
        cs.count("previous_path_checked")
        rec = recs.get(nw)
        if rec is None:
            cs.violation("renamed-file-not-recorded", {"kind": "dr-record-missing", "stage": "folder-move"}, {**ctx, "new": nw})
        elif rec["previousPath"] != old:
            cs.violation("previous-path-wrong", {"kind": "dr-previous-path", "got_none": rec["previousPath"] is None, "stage": "folder-move", "classes": ["folder-move"]}, {**ctx, "new": nw, "got": rec["previousPath"], "want": old})
    if r.exit != 0:
        return
    for cmd in ("verify", "diff", "create"):
        r2 = drive.run(cmd, [root] + (world.fmt_args(fm) if cmd == "create" else []))
        steps.append(f"{cmd} => {r2.exit}")
        cs.evaluated()
        cs.count("followup_commands")
        if r2.internal:
            cs.violation(classify.internal_key(r2), classify.internal_sig(r2, cmd + "-after-dr"), {**ctx, **r2.brief()})
            return
        if r2.exit != 0:
            cs.violation("followup-after-dr-nonzero", {"kind": "after-dr", "cmd": cmd, "exit": r2.exit, "stage": "folder-move"}, {**ctx, "out": r2.text[-500:]})
            return


def run_case(cs):
    if cs.rng.random() < 0.05:
        return _nested_namesake(cs)
    if cs.rng.random() < 0.06:
        return _folder_move(cs)
    if cs.rng.random() < 0.08:
        return _twin_rename(cs)
    rng = cs.rng
    tree = world.gen_tree(rng, max_files=8, max_dirs=rng.choice([0, 2, 4]), min_files=2, classes=["plain", "plain", "space", "uni", "punct"], distinct=True)
    if rng.random() < 0.25:
        # one zero-length file (marker / lock files): still the only file with that content
        fl = sorted(k for k, v in tree.items() if v is not None)
        if fl and not any(v == b"" for v in tree.values()):
            tree[rng.choice(fl)] = b""
            cs.count("trees_with_an_empty_file")
    d = cs.dir()
    root = os.path.join(d, world.root_name(rng))
    world.write_tree(root, tree)
    steps = []
    prior = rng.randint(1, 3)
    fmts = world.gen_formats(rng)
    for g in range(prior):
        fm = fmts if rng.random() < 0.6 else world.gen_formats(rng)
        r = drive.run("create", [root] + world.fmt_args(fm) + (["-n"] if rng.random() < 0.2 else []))
        steps.append(f"g{g + 1} {fm} => {r.exit}")
        if r.internal or r.exit != 0:
            cs.skip("prior-seal-failed")
            return
        if g < prior - 1 and rng.random() < 0.5:
            # files that are first recorded by a later generation (possibly in another format than the older files)
            for i in range(rng.randint(1, 2)):
                rel = os.path.join(rng.choice([""] + [k for k, v in tree.items() if v is None]), "later-g%d-%d.bin" % (g, i))
                tree[rel] = b"later" + rng.randbytes(6) + bytes([g, i])
                with open(os.path.join(root, rel), "wb") as f:
                    f.write(tree[rel])
            steps.append("add later files")
    files = sorted(k for k, v in tree.items() if v is not None)
    dirs = sorted(k for k, v in tree.items() if v is None)
    ren, classes = _apply_renames(rng, root, files, dirs, rng.randint(1, 6), "r1-")
    if not ren:
        cs.skip("no-rename-applied")
        return
    added = []
    for i in range(rng.choice([0, 0, 1, 3])):
        rel = os.path.join(rng.choice([""] + dirs), "unrelated-new-%d.bin" % i)
        with open(os.path.join(root, rel), "wb") as f:
            f.write(b"unrelated" + rng.randbytes(6) + bytes([i]))
        added.append(rel)
    if rng.random() < 0.4:
        # an unrelated new file that re-uses the former base name of a renamed file in another directory
        old = rng.choice(sorted(ren))
        for dd in [""] + dirs:
            rel = os.path.join(dd, os.path.basename(old))
            if dd != os.path.dirname(old) and not os.path.exists(os.path.join(root, rel)):
                with open(os.path.join(root, rel), "wb") as f:
                    f.write(b"same-name-other-content" + rng.randbytes(5))
                added.append(rel)
                classes.add("namesake")
                break
    steps.append(f"rename {ren} add {added}")
    ctx = {"steps": steps, "renames": ren, "classes": sorted(classes)}
    # ---- without -dr on a copy: missing plus new
    if rng.random() < 0.5:
        work = os.path.join(d, "nodr")
        shutil.copytree(root, work, symlinks=True)
        r = drive.run("create", [work] + world.fmt_args(fmts))
        cs.evaluated()
        cs.count("without_dr_judged")
        if r.internal:
            cs.violation(classify.internal_key(r), classify.internal_sig(r, "create"), {**ctx, **r.brief()})
        elif r.exit != 10 or not all(any(l == "  " + old for l in r.text.split("\n")) for old in ren):
            cs.violation("without-dr-not-reported-missing", {"kind": "no-dr", "cmd": "create", "exit": r.exit}, {**ctx, "out": r.text[-500:]})
        shutil.rmtree(work)
        shutil.copytree(root, work, symlinks=True)
        r = drive.run("verify", [work])
        cs.evaluated()
        if r.internal:
            cs.violation(classify.internal_key(r), classify.internal_sig(r, "verify"), {**ctx, **r.brief()})
        elif r.exit != 21 or not all(any("found new file" in l and l.endswith(new) for l in r.text.split("\n")) for new in ren.values()):
            cs.violation("without-dr-not-reported-new", {"kind": "no-dr", "cmd": "verify", "exit": r.exit}, {**ctx, "out": r.text[-500:]})
        shutil.rmtree(work)
    if rng.random() < 0.25:
        # an intermediate run without -dr: it reports the old names missing (exit 10) or, with -sf, just records the new
        # names; the rename detection of the following -dr run must still connect the names
        if rng.random() < 0.5:
            ri = drive.run("create", [root] + world.fmt_args(fmts))
            steps.append(f"intermediate create => {ri.exit}")
        else:
            ri = drive.run("create", [root] + world.fmt_args(fmts) + [x for nw in ren.values() for x in ("-sf", os.path.join(root, nw))])
            steps.append(f"intermediate create -sf new names => {ri.exit}")
        classes.add("intermediate")
        if ri.internal:
            cs.violation(classify.internal_key(ri), classify.internal_sig(ri, "create"), {**ctx, **ri.brief()})
            return
    # ---- create -dr
    same = rng.random() < 0.5
    fm2 = fmts if same else world.gen_formats(rng)
    rel_fmt = "same" if set(fm2) == set(fmts) else "overlap" if set(fm2) & set(fmts) else "disjoint"
    if not _dr_step(cs, root, fm2, ren, ctx, steps, rel_fmt, classes, prior, "first"):
        return
    eff = dict(ren)  # original path -> current path
    # ---- optional second step in a later generation
    second = rng.choice(["none", "none", "chain", "back", "long", "reuse", "shift"])
    if second == "shift":
        # names handed on within one step: q -> q2 and, at the same time, p -> q
        cur = sorted(f for f, v in world.read_tree(root).items() if v is not None)
        if len(cur) < 2:
            second = "none"
        else:
            p_, q_ = rng.sample(cur, 2)
            q2 = os.path.join(os.path.dirname(q_), "s2-" + world.gen_name(rng, "plain"))
            if os.path.lexists(os.path.join(root, q2)):
                second = "none"
            else:
                os.rename(os.path.join(root, q_), os.path.join(root, q2))
                os.rename(os.path.join(root, p_), os.path.join(root, q_))
                steps.append(f"shift: {q_!r} -> {q2!r} and {p_!r} -> {q_!r} in one step")
                cs.count("names_handed_on_in_one_step")
                ren3 = {q_: q2, p_: q_}
                if not _dr_step(cs, root, fm2, ren3, {"steps": steps, "renames": ren3, "classes": ["shift"]}, steps, rel_fmt, {"shift"}, prior, "shift"):
                    return
                for o, n in list(eff.items()):
                    if n in ren3:
                        eff[o] = ren3[n]
                for o, n in ren3.items():
                    if o not in eff.values():
                        eff.setdefault(o, n)
    if second == "reuse":
        # a name that was given away by a recorded rename is taken by another file in a later generation
        freed = rng.choice(sorted(ren))
        others = sorted(f for f in world.read_tree(root) if world.read_tree(root)[f] is not None and f not in ren.values() and f != freed)
        if os.path.lexists(os.path.join(root, freed)) or not others:
            second = "none"
        else:
            c = rng.choice(others)
            os.makedirs(os.path.dirname(os.path.join(root, freed)), exist_ok=True)
            os.rename(os.path.join(root, c), os.path.join(root, freed))
            steps.append(f"reuse: {c!r} -> {freed!r} (a name given away in the generation before)")
            cs.count("freed_names_reused")
            if not _dr_step(cs, root, fm2, {c: freed}, {"steps": steps, "renames": {c: freed}, "classes": ["reuse"]}, steps, rel_fmt, {"reuse"}, prior, "reuse"):
                return
            eff[c] = freed
            # and when that file disappears later on, it is missing
            gone = os.path.join(root, freed)
            keep = open(gone, "rb").read()
            os.remove(gone)
            for cmd in ("verify", "diff"):
                r = drive.run(cmd, [root])
                cs.evaluated()
                cs.count("removed_after_reuse_judged")
                if r.internal:
                    cs.violation(classify.internal_key(r), classify.internal_sig(r, cmd), {"steps": steps, **r.brief()})
                elif r.exit != 10:
                    cs.violation("name-reused-after-rename", {"kind": "removed-file-with-reused-name-not-reported", "cmd": cmd, "exit": r.exit}, {"steps": steps, "removed": freed, "out": r.text[-300:]})
            with open(gone, "wb") as f:
                f.write(keep)
    if second == "long":
        # the same file renamed again and again in successive generations: a->b->c->d..., or back and forth
        a = rng.choice(sorted(ren))
        names = [a, ren[a]]
        pingpong = rng.random() < 0.5
        for hop in range(rng.randint(2, 3)):
            cur = names[-1]
            nxt = names[-2] if pingpong else os.path.join(os.path.dirname(cur), "r%d-" % (hop + 3) + world.gen_name(rng, "plain"))
            if os.path.exists(os.path.join(root, nxt)):
                break
            os.rename(os.path.join(root, cur), os.path.join(root, nxt))
            names.append(nxt)
            eff[a] = nxt
            steps.append(f"rename hop {cur!r} -> {nxt!r}")
            if not _dr_step(cs, root, fm2, {cur: nxt}, {"steps": steps, "renames": {cur: nxt}, "classes": ["long-pingpong" if pingpong else "long-chain"]}, steps, rel_fmt, {"long-pingpong" if pingpong else "long-chain"}, prior, "chain"):
                return
    elif second != "none":
        cur_files = sorted(ren.values())
        pick = rng.sample(cur_files, min(len(cur_files), rng.randint(1, 2)))
        ren2 = {}
        for b in pick:
            a = [o for o, n in ren.items() if n == b][0]
            if second == "back":
                c = a
            else:
                c = os.path.join(os.path.dirname(b), "r2-" + world.gen_name(rng, "plain"))
            if os.path.exists(os.path.join(root, c)):
                continue
            os.makedirs(os.path.dirname(os.path.join(root, c)), exist_ok=True)
            os.rename(os.path.join(root, b), os.path.join(root, c))
            ren2[b] = c
            eff[a] = c
        if ren2:
            steps.append(f"rename2 {ren2}")
            ctx2 = {"steps": steps, "renames": ren2, "classes": [second]}
            if not _dr_step(cs, root, fm2, ren2, ctx2, steps, rel_fmt, {second}, prior, second):
                return
    # ---- content change of a renamed file must still be caught
    victim = rng.choice(sorted(eff.values()))
    with open(os.path.join(root, victim), "ab") as f:
        f.write(b"!")
    r = drive.run("verify", [root])
    cs.evaluated()
    cs.count("altered_after_rename_judged")
    if r.internal:
        cs.violation(classify.internal_key(r), classify.internal_sig(r, "verify"), {"steps": steps, **r.brief()})
    elif r.exit != 11:
        cs.violation("altered-renamed-file-not-detected", {"kind": "altered-after-rename", "exit": r.exit, "second": second}, {"steps": steps, "victim": victim, "out": r.text[-400:]})
    cs.sample({"steps": steps, "second": second})


def _dr_step(cs, root, fm, ren, ctx, steps, rel_fmt, classes, prior, stage):
    no_dh = cs.rng.random() < 0.25  # -n: no directory hashes, the new folders get records without digests
    if no_dh:
        cs.count("dr_runs_with_n")
    r, new, before, after = hist.create(root, fm, ["-dr"] + (["-n"] if no_dh else []))
    steps.append(f"create -dr{' -n' if no_dh else ''} {fm} => {r.exit}")
    cs.evaluated()
    cs.count("dr_runs_judged")
    cs.cls("+".join(sorted(classes)), "n%d" % len(ren), rel_fmt, "prior%d" % prior, stage)
    if r.internal:
        key = classify.internal_key(r)
        cs.violation(key, {**classify.internal_sig(r, "create-dr"), "newdir": "newdir" in classes, "fmt": rel_fmt}, {**ctx, **r.brief()})
        return False
    if r.exit != 0:
        key = "rename-chain-across-generations" if stage in ("chain", "back") else "name-reused-after-rename" if stage in ("reuse", "shift") else "dr-create-nonzero"
        cs.violation(key, {"kind": "dr-exit", "exit": r.exit, "stage": stage, "fmt": rel_fmt, "classes": sorted(classes)}, {**ctx, "out": r.text[-500:]})
        return False
    names = [n for n in new.get(".", []) if n.endswith(".mhl")]
    if len(names) != 1:
        cs.violation("dr-no-manifest", {"kind": "dr-manifest-count"}, ctx)
        return False
    m = xmlread.read_manifest_bytes(after["."][names[0]])
    recs = {h["path"]: h for h in m["hashes"] if h["kind"] == "file"}
    for old, nw in ren.items():
        cs.count("previous_path_checked")
        rec = recs.get(nw)
        if rec is None:
            cs.violation("renamed-file-not-recorded", {"kind": "dr-record-missing", "stage": stage}, {**ctx, "new": nw})
        elif rec["previousPath"] != old:
            cs.violation("name-reused-after-rename" if stage in ("reuse", "shift") else "previous-path-wrong", {"kind": "dr-previous-path", "got_none": rec["previousPath"] is None, "stage": stage, "fmt": rel_fmt, "classes": sorted(classes)}, {**ctx, "new": nw, "got": rec["previousPath"], "want": old})
    for p, rec in recs.items():
        if rec["previousPath"] is not None and p not in ren.values():
            cs.violation("previous-path-on-unrenamed-file", {"kind": "dr-previous-path-extra"}, {**ctx, "path": p, "prev": rec["previousPath"]})
    for h in m["hashes"]:
        # no folder is renamed in this workload: a folder record with a previous path took it from a file
        if h["kind"] == "dir" and h.get("previousPath") is not None:
            cs.count("folder_records_with_previous_path")
            cs.violation("previous-path-on-unrenamed-file", {"kind": "dr-previous-path-on-folder", "stage": stage}, {**ctx, "path": h["path"], "prev": h["previousPath"]})
    if "missing file" in r.text:
        cs.violation("dr-reports-missing", {"kind": "dr-missing-output"}, {**ctx, "out": r.text[-400:]})
    for cmd in ("verify", "diff", "create"):
        if cmd == "create":
            r2, new2, before2, after2 = hist.create(root, fm, [])
        else:
            r2 = drive.run(cmd, [root])
        steps.append(f"{cmd} => {r2.exit}")
        cs.evaluated()
        cs.count("followup_commands")
        if r2.internal:
            cs.violation(classify.internal_key(r2), classify.internal_sig(r2, cmd + "-after-dr"), {**ctx, **r2.brief()})
            return False
        if r2.exit != 0:
            key = "rename-chain-across-generations" if stage in ("chain", "back") else "name-reused-after-rename" if stage in ("reuse", "shift") else "followup-after-dr-nonzero"
            cs.violation(key, {"kind": "after-dr", "cmd": cmd, "exit": r2.exit, "stage": stage}, {**ctx, "out": r2.text[-500:]})
            return False
    # the generation written by the follow-up create knows the renamed files under their new names: verified, not original
    nm = [n for n in new2.get(".", []) if n.endswith(".mhl")]
    if nm:
        m2 = xmlread.read_manifest_bytes(after2["."][nm[0]])
        for rec in m2["hashes"]:
            if rec["kind"] == "file" and rec["path"] in ren.values():
                cs.count("renamed_identity_checked")
                acts = {a for f, dg, a, _ in rec["entries"]}
                if acts != {"verified"}:
                    cs.violation("renamed-file-loses-identity", {"kind": "after-dr-actions", "actions": sorted(str(a) for a in acts), "stage": stage}, {**ctx, "path": rec["path"]})
    return True
