"""C16 — recorded size and timestamps describe the real file in any time zone.

Oracle: os.stat (size, mtime), the injected clock (I5), zoneinfo (O7) for the UTC offset in force at an instant, and the
xs:dateTime lexical form.  Observed: size / lastmodificationdate / hashdate attributes, <creationdate> and the manifest
file name written by create under TZ=<zone>."""
import datetime as _dt
import os
import zoneinfo

from .. import classify, clock, drive, hist, world
from ..oracle import xmlread, xsdlite

TECHNIQUE = 'runtime monitoring: zoneinfo / os.stat oracle on recorded sizes and dates under TZ + injected clock placed around DST switches'
LEVEL = "exploration"
RULE = (
    "case = time zone (fixed offsets, half/quarter-hour zones, DST zones of both hemispheres) x file mtimes and injected 'now' "
    "independently placed deep in winter / summer, within an hour before / after each DST switch and inside the repeated hour "
    "(both folds) x file sizes incl. 0, 8 % clamped mtimes (0, 1, -1, 2^31-1, 2^31, 2100); class = (zone, mtime side, now side) plus size classes"
)
ASSUMPTIONS = ["integer-second mtimes; zones with second-precision offsets (pre-1900 LMT) are not exercised", "zoneinfo's tz database is the reference for offsets"]
MIN_DECIDING = {"lastmod_checked": 300, "hashdate_checked": 300, "creationdate_checked": 100, "size_zero_checked": 10}

ZONES = [
    "UTC",
    "Etc/GMT+5",
    "Etc/GMT-14",
    "Asia/Kolkata",
    "Asia/Kathmandu",
    "Europe/Berlin",
    "Europe/Dublin",
    "America/New_York",
    "America/St_Johns",
    "America/Sao_Paulo",
    "Australia/Sydney",
    "Australia/Lord_Howe",
    "Pacific/Auckland",
    "Pacific/Chatham",
    "Africa/Casablanca",
    "Africa/Monrovia",  # offset -00:44:30 until January 1972: an offset ISO 8601 cannot express
]
_trans = {}


def budget(tier):
    return {"cases": 4000, "seconds": 55} if tier == "quick" else {"cases": 150000, "seconds": 600}


def _transitions(zone, year):
    key = (zone, year)
    if key not in _trans:
        z = zoneinfo.ZoneInfo(zone)
        t0 = int(_dt.datetime(year, 1, 1, tzinfo=_dt.timezone.utc).timestamp())
        t1 = int(_dt.datetime(year + 1, 1, 1, tzinfo=_dt.timezone.utc).timestamp())
        out = []
        prev = _dt.datetime.fromtimestamp(t0, z).utcoffset()
        t = t0
        while t < t1:
            t += 1800
            off = _dt.datetime.fromtimestamp(t, z).utcoffset()
            if off != prev:
                lo, hi = t - 1800, t
                while hi - lo > 1:
                    mid = (lo + hi) // 2
                    if _dt.datetime.fromtimestamp(mid, z).utcoffset() == prev:
                        lo = mid
                    else:
                        hi = mid
                out.append((hi, prev, off))
                prev = off
        _trans[key] = out
    return _trans[key]


def _instant(rng, zone, year):
    """returns (epoch, side label)"""
    tr = _transitions(zone, year)
    base = int(_dt.datetime(year, 1, 1, tzinfo=_dt.timezone.utc).timestamp())
    kinds = ["jan", "jul", "random", "newyear"]
    if tr:
        kinds += ["before-switch", "after-switch", "fold0", "fold1", "before-switch", "after-switch"]
    k = rng.choice(kinds)
    if k == "newyear":
        # the days around 1 January (calendar year, ISO week year and local/UTC date differ here)
        return base + rng.randint(-3 * 86400, 3 * 86400), k
    if k == "jan":
        return base + 14 * 86400 + rng.randint(0, 86399), k
    if k == "jul":
        return base + 195 * 86400 + rng.randint(0, 86399), k
    if k == "random":
        return base + rng.randint(0, 365 * 86400 - 1), k
    t, before, after = rng.choice(tr)
    if k == "before-switch":
        return t - rng.randint(1, 3600), k
    if k == "after-switch":
        return t + rng.randint(0, 3599), k
    # repeated local hour exists when the offset decreases
    back = [x for x in tr if x[2] < x[1]]
    if not back:
        return t - 1, "before-switch"
    t, before, after = rng.choice(back)
    width = int((before - after).total_seconds())
    if k == "fold0":
        return t - rng.randint(1, width), k
    return t + rng.randint(0, width - 1), k


def _parse(s):
    try:
        return _dt.datetime.fromisoformat(s)
    except Exception:
        return None


def _check_dt(cs, what, text, want_epoch, zone, z, ctx, exact=True):
    cs.evaluated()
    cs.count(what + "_checked")
    if not xsdlite.is_datetime(text):
        cs.violation("datetime-not-wellformed", {"kind": "datetime-lexical", "attr": what}, {**ctx, "text": text})
        return
    dt = _parse(text)
    if dt is None or dt.tzinfo is None:
        cs.violation("datetime-without-offset", {"kind": "datetime-no-offset", "attr": what}, {**ctx, "text": text})
        return
    want_off = _dt.datetime.fromtimestamp(want_epoch, z).utcoffset()
    if want_off.total_seconds() % 60:
        # the offset in force has a seconds part (local mean time): ISO 8601 / xs:dateTime cannot carry it, the instant
        # has to be right and the text has to say which offset it uses - UTC is the only one that is not a guess
        cs.count("offsets_with_seconds_checked")
        want_off = _dt.timedelta(0)
    got_epoch = int(dt.timestamp())
    # hash dates keep the fraction of the second, they have to be right to the microsecond
    fraction_wrong = what == "hashdate" and exact and abs(dt.timestamp() - want_epoch) > 2.5e-6 and dt.microsecond != 0
    if got_epoch != int(want_epoch) or dt.utcoffset() != want_off or fraction_wrong:
        wrong_instant = got_epoch != int(want_epoch)
        local_ok = dt.replace(tzinfo=None) == _dt.datetime.fromtimestamp(want_epoch, z).replace(tzinfo=None, microsecond=0 if what != "hashdate" else dt.microsecond)
        key = "dst-offset-from-now" if local_ok and dt.utcoffset() != want_off else "timestamp-wrong"
        cs.violation(
            key,
            {"kind": "datetime-value", "attr": what, "instant_ok": not wrong_instant, "offset_ok": dt.utcoffset() == want_off, "local_fields_ok": local_ok},
            {**ctx, "text": text, "want_epoch": want_epoch, "want_offset": str(want_off), "got_offset": str(dt.utcoffset())},
        )


def run_case(cs):
    rng = cs.rng
    zone = rng.choice(ZONES) if cs.tier == "quick" or rng.random() < 0.5 else rng.choice(sorted(zoneinfo.available_timezones()))
    try:
        z = zoneinfo.ZoneInfo(zone)
    except Exception:
        cs.skip("zone-unavailable")
        return
    year = rng.choice([2019, 2021, 2024, 2025, 2026, 2027, 2028])
    now, now_side = _instant(rng, zone, year)
    # the clock is rarely at a full second: fractions with leading zeros, just below the next second, ...
    frac = rng.choice([0, 0, 1, 45, 4500, 50000, 99999, 100000, 250000, 500000, 999999])
    now = now + frac / 1e6
    cs.count("clock_fraction:" + ("0" if frac == 0 else "below-0.1s" if frac < 100000 else "0.1s-and-more"))
    d = cs.dir()
    root = os.path.join(d, world.root_name(rng))
    os.makedirs(os.path.join(root, "sub"))
    files = {}
    sizes = [0, 0, 1, 2, 255, 4096, 70000]
    for i in range(rng.randint(2, 5)):
        rel = rng.choice(["", "sub/"]) + "f%d.bin" % i
        data = rng.randbytes(rng.choice(sizes))
        with open(os.path.join(root, rel), "wb") as f:
            f.write(data)
        mt, side = _instant(rng, zone, rng.choice([year, year - 1, 2015]))
        if rng.random() < 0.08:
            # zeroed / clamped time stamps as archives and some cameras produce them
            # (incl. dates before 1970: summer 1969, winter 1965, summer 1968 - the zone's offset then is not the one of 1 Jan 1970)
            mt, side = rng.choice([0, 0, 1, -1, 86399, 2**31 - 1, 2**31, 4102444800, 315532800, -15000000, -157000000, -47000000, -63000000]), "special"
            cs.count("special_mtimes")
        os.utime(os.path.join(root, rel), (mt, mt))
        files[rel] = (len(data), mt, side)
    if rng.random() < 0.3 and files:
        # a file reached through a symbolic link: the record describes the bytes that are hashed (the target)
        target = sorted(files)[0]
        os.symlink(os.path.join(root, target), os.path.join(root, "link-to-file.bin"))
        files["link-to-file.bin"] = files[target]
        cs.count("symlinked_files")
    dmt, dside = _instant(rng, zone, year)
    if rng.random() < 0.05:
        dmt, dside = rng.choice([0, 1, -1, 2**31]), "special"
    os.utime(os.path.join(root, "sub"), (dmt, dmt))
    clock.set_zone(zone)
    clock.freeze(now)
    fm = world.gen_formats(rng)[:2]
    r, new, before, after = hist.create(root, fm, [])
    ctx = {"zone": zone, "now": now, "now_side": now_side}
    if r.internal or r.exit != 0:
        cs.evaluated()
        cs.violation(classify.internal_key(r) if r.internal else "create-nonzero", {"kind": "create-failed", "exit": r.exit, "exc": r.exc_class}, {**ctx, **r.brief()})
        return
    name = [n for n in new["."] if n.endswith(".mhl")][0]
    m = xmlread.read_manifest_bytes(after["."][name])
    want_name_time = _dt.datetime.fromtimestamp(now, _dt.timezone.utc).strftime("%Y-%m-%d_%H%M%S") + "Z"
    cs.evaluated()
    cs.count("filename_checked")
    if not name.endswith("_" + want_name_time + ".mhl"):
        cs.violation("manifest-name-time-not-utc", {"kind": "name-time", "zone": zone}, {**ctx, "name": name, "want": want_name_time})
    _check_dt(cs, "creationdate", m["creatorinfo"].get("creationdate"), now, zone, z, ctx)
    for rec in m["hashes"]:
        if rec["kind"] == "file":
            size, mt, side = files[rec["path"]]
            c2 = {**ctx, "path": rec["path"], "mtime": mt, "mtime_side": side}
            cs.evaluated()
            cs.count("size_checked")
            if size == 0:
                cs.count("size_zero_checked")
            if rec["size"] is None or not rec["size"].lstrip("+").isdigit() or int(rec["size"]) != size:
                cs.violation("size-zero-omitted" if size == 0 and rec["size"] is None else "size-wrong", {"kind": "size", "zero": size == 0, "absent": rec["size"] is None}, {**c2, "got": rec["size"], "want": size})
            _check_dt(cs, "lastmod", rec["lastmod"], mt, zone, z, c2)
            cs.cls(zone, side, now_side)
            for f, dg, a, hd in rec["entries"]:
                _check_dt(cs, "hashdate", hd, now, zone, z, c2)
        elif rec["path"] == "sub":
            _check_dt(cs, "lastmod", rec["lastmod"], dmt, zone, z, {**ctx, "path": "sub", "mtime": dmt, "mtime_side": dside})
            for f, dg, a, hd in rec["content"]:
                _check_dt(cs, "hashdate", hd, now, zone, z, {**ctx, "path": "sub"})
    # ---- the same history flattened under another zone: the dates carried over must still denote the same instants
    if rng.random() < 0.35:
        want_instant = {}
        for rec in m["hashes"]:
            for fmt, dg, a, hd in rec["entries"]:
                want_instant[(rec["path"], fmt)] = now
        if rng.random() < 0.6:
            # a second generation, later, adding other formats: its digests carry *its* hash date
            now_b = now + rng.randint(3600, 200 * 86400)
            clock.freeze(now_b)
            fm_b = [f for f in world.FORMATS if f not in fm][: rng.randint(1, 2)]
            rb = drive.run("create", [root] + world.fmt_args(fm_b))
            if rb.exit == 0:
                ms2, _ = hist.load_history(root, ".")
                for rec in ms2[-1][2]["hashes"]:
                    for fmt, dg, a, hd in rec["entries"]:
                        want_instant.setdefault((rec["path"], fmt), now_b)
                cs.count("flatten_two_generations")
        zone2 = rng.choice([z2 for z2 in ZONES if z2 != zone])
        clock.set_zone(zone2)
        now2 = now + rng.randint(1, 400 * 86400)
        clock.freeze(now2)
        dest = os.path.join(d, "flat")
        r2 = drive.run("flatten", [root, dest])
        cs.evaluated()
        cs.count("flatten_other_zone")
        if r2.internal or r2.exit != 0:
            cs.violation(classify.internal_key(r2) if r2.internal else "flatten-nonzero", {"kind": "flatten-failed", "exit": r2.exit, "exc": r2.exc_class}, {**ctx, **r2.brief()})
        else:
            z2 = zoneinfo.ZoneInfo(zone2)
            for dp, dn, fn in os.walk(dest):
                for f in fn:
                    if f.startswith("packinglist_") and f.endswith(".mhl"):
                        pm = xmlread.read_manifest(os.path.join(dp, f))
                        c3 = {**ctx, "zone_flatten": zone2, "now_flatten": now2}
                        # the packing list is a manifest too: its name carries the UTC time of the flatten run
                        cs.count("filename_checked")
                        want_pl = _dt.datetime.fromtimestamp(now2, _dt.timezone.utc).strftime("%Y-%m-%d_%H%M%S") + "Z"
                        if not f.endswith("_" + want_pl + ".mhl"):
                            cs.violation("manifest-name-time-not-utc", {"kind": "name-time", "zone": zone2, "file": "packinglist"}, {**c3, "name": f, "want": want_pl})
                        _check_dt(cs, "creationdate", pm["creatorinfo"].get("creationdate"), now2, zone2, z2, c3)
                        for rec in pm["hashes"]:
                            for fmt, dg, a, hd in rec["entries"]:
                                cs.count("carried_hashdate_checked")
                                dt = _parse(hd) if hd else None
                                wi = want_instant.get((rec["path"], fmt), now)
                                if dt is None or dt.tzinfo is None or int(dt.timestamp()) != int(wi):
                                    cs.violation(
                                        "aware-date-relabelled",
                                        {"kind": "carried-date-instant", "attr": "hashdate", "via": "flatten", "same_wall_fields": dt is not None and dt.replace(tzinfo=None, microsecond=0) == _dt.datetime.fromtimestamp(wi, z).replace(tzinfo=None, microsecond=0), "other_generation_instant": dt is not None and dt.tzinfo is not None and int(dt.timestamp()) in (int(now), int(wi)) and int(dt.timestamp()) != int(wi)},
                                        {**c3, "path": rec["path"], "format": fmt, "text": hd, "want_epoch": wi},
                                    )
        clock.set_zone(zone)
    cs.count("zone:" + zone if zone in ZONES else "zone:other")
    cs.count("now_side:" + now_side)
    cs.sample({"zone": zone, "now": now, "now_side": now_side, "files": {k: list(v) for k, v in files.items()}})
