"""C04 — digests are always judged against the first recorded value.

Oracle (O6): predicates over the per-path list of (generation, format, digest, action) read with the independent reader,
plus O1 for the digest of the content that was on disk when each generation was sealed.  Observed: action and digest of
every format element of every new manifest; exit code of every create."""
import itertools
import os

from .. import classify, drive, hist, world
from ..oracle import refhash, xmlread

TECHNIQUE = 'runtime monitoring: offline checker of the recorded history (generation, format, digest, action) against the first-recorded-value specification; inner space of length<=3 sequences enumerated'
LEVEL = "exploration"
RULE = (
    "case = 1-4 files (root, sub folder, nested history) x generation sequence of length 1-6 over non-empty format subsets x "
    "per-generation content transition per file (keep / alter / restore) x folder or -sf mode, 6 % with 11-13 generations, 20 % as travelling history (another zone per generation, clock sometimes set back); thorough additionally "
    "enumerates every sequence of length<=3 over subsets of {md5,xxh64,sha1} x every valid transition pattern; "
    "class = (format-set sequence shape, content pattern, mode, nested) with length>=2"
)
ASSUMPTIONS = ["sequence length <= 6 (6 % of the cases: 11-13); content is altered only after all histories exist, so 'first generation that records the path in its history' is unambiguous"]
MIN_DECIDING = {"entries_judged": 200, "gens_altered": 10, "gens_newformat": 10}

ALPH = ["md5", "xxh64", "sha1"]
SUBSETS = [list(c) for k in (1, 2, 3) for c in itertools.combinations(ALPH, k)]


def _exhaustive():
    out = []
    for L in (1, 2, 3):
        for seq in itertools.product(range(len(SUBSETS)), repeat=L):
            for pat in itertools.product("KAR", repeat=L - 1):
                altered = False
                ok = True
                for t in pat:
                    if t == "R" and not altered:
                        ok = False
                        break
                    altered = t == "A" or (altered and t == "K")
                if ok:
                    out.append(([SUBSETS[i] for i in seq], "".join(pat)))
    return out


EXH = _exhaustive()


def budget(tier):
    return {"cases": 2400, "seconds": 55} if tier == "quick" else {"cases": len(EXH) + 60000, "seconds": 600}


def run_case(cs):
    rng = cs.rng
    idx = int(cs.seed_str.rsplit(":", 1)[1])
    exhaustive = cs.tier == "thorough" and idx < len(EXH)
    d = cs.dir()
    root = os.path.join(d, world.root_name(rng))
    os.makedirs(root)
    if not exhaustive and rng.random() < 0.05:
        return _chain_case(cs, root)
    if not exhaustive and rng.random() < 0.012:
        return _bulk_case(cs, root)
    if exhaustive:
        seq, pat = EXH[idx]
        files = ["f.bin"]
        nested = []
        mode_sf = False
        trans = [{"f.bin": t} for t in pat]
        cs.count("exhaustive_cases")
    else:
        L = rng.randint(1, 6)
        if rng.random() < 0.06:
            L = rng.randint(11, 13)  # generation numbers with two digits
            cs.count("long_sequences")
        seq = [world.gen_formats(rng) if L < 10 else rng.sample(["md5", "xxh64", "sha1"], rng.randint(1, 2)) for _ in range(L)]
        nfiles = rng.randint(1, 4)
        places = ["", "sub/", "K/", "K/deep/"]
        files = []
        for i in range(nfiles):
            files.append(rng.choice(places) + "f%d" % i + rng.choice([".bin", " x.mov", "ä.dat"]))
        if any(f.startswith("K/") for f in files) and rng.random() < 0.5:
            # names that merely start with the nested folder's name
            files += rng.sample(["K.xml", "K_b/g.bin", "K 2/h.bin"], rng.randint(1, 2))
        nested = ["K"] if any(f.startswith("K/") for f in files) and rng.random() < 0.7 else []
        mode_sf = rng.random() < 0.25
        trans = []
        altered_now = {f: False for f in files}
        for g in range(L - 1):
            t = {}
            for f in files:
                c = rng.choice("KKKAR" if altered_now[f] else "KKKA")
                t[f] = c
                altered_now[f] = c == "A" or (altered_now[f] and c == "K")
            trans.append(t)
    original = {}
    for f in files:
        p = os.path.join(root, f)
        os.makedirs(os.path.dirname(p), exist_ok=True)
        original[f] = rng.randbytes(rng.randint(1, 40)) + f.encode()
        with open(p, "wb") as fh:
            fh.write(original[f])
    current = dict(original)
    steps = []
    if nested and rng.random() < 0.5:
        r = drive.run("create", [os.path.join(root, "K")] + world.fmt_args(world.gen_formats(rng)))
        steps.append(f"child-first => {r.exit}")
        if r.exit != 0:
            cs.violation("unaltered-create-nonzero", {"kind": "unaltered-nonzero", "exit": r.exit, "stage": "child"}, {"steps": steps})
            return
        pending_child = False
        child_sealed_first = True
    else:
        pending_child = bool(nested)
        child_sealed_first = False
    hists = None
    # model: per (history, path): first generation seen, earliest digest per format
    first_gen = {}
    earliest = {}
    if child_sealed_first:
        _learn_child(cs, root, current, first_gen, earliest, steps)
    shape = []
    late = {}
    if not exhaustive and len(seq) >= 2 and rng.random() < 0.35:
        # a file that joins in a later generation; its name may differ only in case from a recorded one
        gl = rng.randint(1, len(seq) - 1)
        basef = rng.choice(files)
        dn, bn = os.path.split(basef)
        cand = rng.choice([bn.upper(), bn.capitalize(), bn.swapcase(), "late-" + bn])
        nm = (dn + "/" if dn else "") + cand
        if nm not in files and nm.lower() != basef.lower() or (nm not in files and nm != basef):
            late[gl] = nm
    # a travelling history: every generation is written under another zone (the wall-clock reading of a later generation
    # may be earlier than that of generation 1), now and then with a clock that was set back
    travel = (not exhaustive) and rng.random() < 0.2
    tnow = 1700000000 + rng.randint(0, 10**7)
    if travel:
        cs.count("travelling_histories")
    for g, fm in enumerate(seq):
        if travel:
            from .. import clock

            tnow += rng.choice([2, 60, 3600, 7200, 86400]) if rng.random() < 0.85 or g == 0 else -rng.choice([1800, 3600, 86400])
            clock.set_zone(rng.choice(["Pacific/Kiritimati", "Pacific/Pago_Pago", "UTC", "Asia/Tokyo", "America/Los_Angeles", "Europe/Berlin"]))
            clock.freeze(tnow)
        if g in late:
            nm = late[g]
            original[nm] = rng.randbytes(rng.randint(1, 30)) + nm.encode()
            current[nm] = original[nm]
            with open(os.path.join(root, nm), "wb") as fh:
                fh.write(original[nm])
            files = files + [nm]
            for t in trans[g:]:
                t.setdefault(nm, "K")
            cs.count("late_files")
            if nm.lower() in {f.lower() for f in files if f != nm}:
                cs.count("late_case_variant_files")
        if g > 0:
            for f, t in trans[g - 1].items():
                if t == "A":
                    current[f] = rng.randbytes(rng.randint(1, 40)) + b"#%d" % g
                elif t == "R":
                    current[f] = original[f]
                if t in "AR":
                    with open(os.path.join(root, f), "wb") as fh:
                        fh.write(current[f])
        sel = files
        extra = []
        if mode_sf and g > 0:
            sel = rng.sample(files, rng.randint(1, len(files)))
            for f in sel:
                extra += ["-sf", os.path.join(root, f)]
        r, new, before, after = hist.create(root, fm, extra)
        alt_sel = [f for f in sel if current[f] != original[f]]
        steps.append(f"g{g + 1} {fm} {'sf:' + str(sel) if extra else ''} altered={alt_sel} => {r.exit}")
        cs.evaluated()
        cs.count("gens")
        if alt_sel:
            cs.count("gens_altered")
        if r.internal:
            cs.violation(classify.internal_key(r), classify.internal_sig(r, "create"), {"steps": steps, **r.brief()})
            return
        want_exit = 11 if alt_sel else 0
        if r.exit != want_exit:
            cs.violation(
                "unaltered-create-nonzero" if not alt_sel else "altered-create-not-11",
                {"kind": "create-exit", "exit": r.exit, "want": want_exit, "sf": bool(extra)},
                {"steps": steps, "out": r.text[-500:]},
            )
            return
        hists = world.find_histories(root)
        seen_paths = set()
        for h, names in new.items():
            for n in names:
                if not n.endswith(".mhl"):
                    continue
                m = xmlread.read_manifest_bytes(after[h][n])
                for rec in m["hashes"]:
                    if rec["kind"] != "file":
                        continue
                    rel = rec["path"] if h == "." else h + "/" + rec["path"]
                    if rel not in current:
                        continue
                    seen_paths.add(rel)
                    key = (h, rec["path"])
                    ents = rec["entries"]
                    is_first = key not in first_gen
                    known_fmt = earliest.get(key, {})
                    have_verified_old = any(f in known_fmt and a == "verified" for f, dg, a, _ in ents)
                    have_failed = any(a == "failed" for f, dg, a, _ in ents)
                    newfmt = [f for f, dg, a, _ in ents if f not in known_fmt]
                    for f, dg, a, _ in ents:
                        cs.count("entries_judged")
                        cs.count("action:%s" % a)
                        ctx = {"steps": steps, "path": rel, "history": h, "format": f, "action": a, "gen": g + 1}
                        if dg != refhash.digest(f, current[rel]):
                            cs.violation("recorded-digest-not-current-content", {"kind": "digest", "format": f}, ctx)
                        if is_first:
                            if a != "original":
                                cs.violation("first-record-not-original", {"kind": "action", "got": a, "want": "original"}, ctx)
                            continue
                        if a == "original":
                            cs.violation("original-outside-first-generation", {"kind": "action", "got": a, "want": "verified|failed"}, ctx)
                            continue
                        if f in known_fmt:
                            want = "verified" if dg == known_fmt[f] else "failed"
                            if a != want:
                                cs.violation(
                                    "action-not-judged-against-earliest",
                                    {"kind": "action", "got": a, "want": want, "recorded_format": True},
                                    {**ctx, "earliest": known_fmt[f], "digest": dg},
                                )
                        else:
                            if a != "verified":
                                cs.violation("new-format-not-verified", {"kind": "action", "got": a, "want": "verified", "recorded_format": False}, ctx)
                            if not have_verified_old or have_failed:
                                cs.violation(
                                    "new-format-without-verified-existing",
                                    {"kind": "new-format-gate", "have_verified_old": have_verified_old, "have_failed": have_failed},
                                    ctx,
                                )
                    if not is_first:
                        have = {f for f, dg, a, _ in ents}
                        for f in set(fm):
                            if f in known_fmt and f not in have:
                                cs.violation(
                                    "requested-recorded-format-without-entry",
                                    {"kind": "entry-missing", "altered": current[rel] != original[rel], "formats_requested": len(set(fm))},
                                    {"steps": steps, "path": rel, "format": f, "have": sorted(have)},
                                )
                    if not is_first and newfmt:
                        cs.count("gens_newformat")
                    if not is_first and current[rel] != original[rel] and not have_failed:
                        cs.violation("failed-check-not-recorded", {"kind": "failed-not-recorded"}, {"steps": steps, "path": rel, "entries": [(f, a) for f, dg, a, _ in ents]})
                    if not is_first and current[rel] == original[rel] and have_failed:
                        cs.violation("failed-on-unaltered", {"kind": "failed-on-unaltered"}, {"steps": steps, "path": rel})
                    # update the model after judging
                    if is_first:
                        first_gen[key] = g + 1
                        earliest[key] = {}
                    for f, dg, a, _ in ents:
                        earliest[key].setdefault(f, dg)
        for f in sel:
            if f not in seen_paths:
                cs.violation("sealed-file-without-record", {"kind": "no-record", "sf": bool(extra)}, {"steps": steps, "path": f})
        shape.append("%d%s" % (len(set(fm)), "a" if alt_sel else ""))
        if pending_child and g == 0:
            r2 = drive.run("create", [os.path.join(root, "K")] + world.fmt_args(world.gen_formats(rng)))
            steps.append(f"child-after-g1 => {r2.exit}")
            pending_child = False
            if r2.exit != 0:
                cs.violation("unaltered-create-nonzero", {"kind": "unaltered-nonzero", "exit": r2.exit, "stage": "child"}, {"steps": steps})
                return
            _learn_child(cs, root, current, first_gen, earliest, steps)
    if len(seq) >= 2:
        pat = "".join("".join(sorted(set(t.values()))) + "." for t in trans)
        cs.cls("-".join(shape), pat[:24], "sf" if mode_sf else "folder", "nested" if nested else "flat")
    cs.sample({"files": files, "nested": nested, "steps": steps})


def _bulk_case(cs, root):
    """some hundred unaltered files over several generations: the manifests are much larger than the pieces an XML parser
    is fed with, and every digest of every earlier generation has to come back complete"""
    rng = cs.rng
    n = rng.randint(150, 260)
    for i in range(n):
        sub = "reel_%d" % (i % 4)
        os.makedirs(os.path.join(root, sub), exist_ok=True)
        with open(os.path.join(root, sub, "clip_%04d.mov" % i), "wb") as fh:
            fh.write(b"clip" + i.to_bytes(3, "big") + rng.randbytes(rng.randint(0, 5)))
    steps = []
    fmts = rng.sample(["xxh64", "md5", "sha1", "xxh128", "c4"], rng.randint(1, 2))
    for g in range(rng.randint(3, 5)):
        opts = ["--comment", "x" * rng.randint(0, 400)] if rng.random() < 0.8 else []
        r, new, before, after = hist.create(root, fmts if g == 0 or rng.random() < 0.6 else rng.sample(["xxh64", "md5", "sha1"], 1), opts)
        steps.append(f"g{g + 1} => {r.exit}")
        cs.evaluated()
        cs.count("gens")
        cs.count("bulk_generations")
        if r.internal:
            cs.violation(classify.internal_key(r), classify.internal_sig(r, "create"), {"steps": steps, **r.brief()})
            return
        if r.exit != 0:
            cs.violation("unaltered-create-nonzero", {"kind": "create-exit", "exit": r.exit, "want": 0, "sf": False, "bulk": True}, {"steps": steps, "files": n, "out": r.text[-400:]})
            return
        for h, names in new.items():
            for nm in names:
                if nm.endswith(".mhl"):
                    m = xmlread.read_manifest_bytes(after[h][nm])
                    for rec in m["hashes"]:
                        for f, dg, a, _ in rec.get("entries", []):
                            cs.count("entries_judged")
                            if a == "failed":
                                cs.violation("failed-on-unaltered", {"kind": "failed-on-unaltered", "bulk": True}, {"steps": steps, "path": rec["path"], "format": f})
                                return
    cs.cls("bulk", "files%d" % (n // 50), "+".join(sorted(fmts)))


def _chain_case(cs, root):
    """histories nested three and four levels deep (ROOT > A > B > C > D): the record of a file in the innermost history
    is the reference for runs started at any level above it"""
    rng = cs.rng
    depth = rng.choice([3, 4, 4])
    chain = ["A", "A/B", "A/B/C", "A/B/C/D"][:depth]
    fm = rng.choice(["md5", "xxh64", "sha1"])
    content = {}
    for lvl in [""] + chain:
        os.makedirs(os.path.join(root, lvl), exist_ok=True)
        rel = (lvl + "/" if lvl else "") + "f.bin"
        content[rel] = rng.randbytes(rng.randint(1, 20)) + rel.encode()
        with open(os.path.join(root, rel), "wb") as fh:
            fh.write(content[rel])
    steps = []
    order = list(reversed(chain)) if rng.random() < 0.6 else rng.sample(chain, len(chain))
    for h in order:
        r = drive.run("create", [os.path.join(root, h), "-h", fm])
        steps.append(f"seal {h} => {r.exit}")
        if r.exit != 0:
            cs.skip("chain-seal-failed")
            return
    r, new, before, after = hist.create(root, [fm], [])
    steps.append(f"root g1 => {r.exit}")
    cs.evaluated()
    if r.internal or r.exit != 0:
        cs.violation(classify.internal_key(r) if r.internal else "unaltered-create-nonzero", {"kind": "create-exit", "exit": r.exit, "want": 0, "sf": False}, {"steps": steps, "out": r.text[-300:]})
        return
    victim_h = chain[-1]
    victim = victim_h + "/f.bin"
    altered = False
    for g in range(rng.randint(2, 4)):
        t = rng.choice("KAR" if altered else "KA")
        if t == "A":
            altered = True
            with open(os.path.join(root, victim), "wb") as fh:
                fh.write(rng.randbytes(9) + b"#%d" % g)
        elif t == "R":
            altered = False
            with open(os.path.join(root, victim), "wb") as fh:
                fh.write(content[victim])
        start = rng.choice([""] + chain[:-1])  # the run starts at the root or at one of the histories in between
        sf = ["-sf", os.path.join(root, victim)] if rng.random() < 0.3 else []
        r, new, before, after = hist.create(os.path.join(root, start) if start else root, [fm], sf)
        steps.append(f"create at {start or '.'} {'-sf' if sf else ''} altered={altered} => {r.exit}")
        cs.evaluated()
        cs.count("gens")
        cs.count("chain_case_runs")
        if altered:
            cs.count("gens_altered")
        if r.internal:
            cs.violation(classify.internal_key(r), classify.internal_sig(r, "create"), {"steps": steps, **r.brief()})
            return
        want_exit = 11 if altered else 0
        if r.exit != want_exit:
            cs.violation("unaltered-create-nonzero" if not altered else "altered-create-not-11", {"kind": "create-exit", "exit": r.exit, "want": want_exit, "sf": bool(sf)}, {"steps": steps, "depth": depth, "out": r.text[-400:]})
            return
        # the record must be in the innermost history and judged against that history's first record
        rel_h = os.path.relpath(os.path.join(root, victim_h), os.path.join(root, start) if start else root)
        names = [n for n in new.get(rel_h, []) if n.endswith(".mhl")]
        if len(names) != 1:
            cs.violation("sealed-file-without-record", {"kind": "no-generation-in-owning-history", "depth": depth}, {"steps": steps, "new": {k: v for k, v in new.items()}})
            return
        m = xmlread.read_manifest_bytes(after[rel_h][names[0]])
        recs = [x for x in m["hashes"] if x["kind"] == "file" and x["path"] == "f.bin"]
        if len(recs) != 1:
            cs.violation("sealed-file-without-record", {"kind": "no-record-in-owning-history", "depth": depth}, {"steps": steps})
            return
        for f, dg, a, _ in recs[0]["entries"]:
            cs.count("entries_judged")
            want = "failed" if altered else "verified"
            if a != want:
                cs.violation("action-not-judged-against-earliest", {"kind": "action", "got": a, "want": want, "recorded_format": True}, {"steps": steps, "depth": depth})
        for h2 in new:
            if h2 != rel_h:
                m2 = xmlread.read_manifest_bytes(after[h2][[n for n in new[h2] if n.endswith(".mhl")][0]]) if any(n.endswith(".mhl") for n in new[h2]) else None
                if m2 and any(x["kind"] == "file" and x["path"].endswith(victim_h.split("/")[-1] + "/f.bin") for x in m2["hashes"]):
                    cs.violation("original-outside-first-generation", {"kind": "file-of-inner-history-recorded-in-outer-one", "depth": depth}, {"steps": steps, "history": h2})
    cs.cls("chain", "depth%d" % depth, fm)
    cs.sample({"chain": chain, "steps": steps})


def _learn_child(cs, root, current, first_gen, earliest, steps):
    """the child's first generation records its files as original in *its* history"""
    ms, _ = hist.load_history(root, "K")
    for rec in ms[-1][2]["hashes"]:
        if rec["kind"] == "file" and ("K/" + rec["path"]) in current:
            key = ("K", rec["path"])
            first_gen[key] = 1
            earliest[key] = {}
            for f, dg, a, _ in rec["entries"]:
                cs.count("entries_judged")
                if a != "original":
                    cs.violation("first-record-not-original", {"kind": "action", "got": a, "want": "original"}, {"steps": steps, "path": rec["path"], "history": "K"})
                if dg != refhash.digest(f, current["K/" + rec["path"]]):
                    cs.violation("recorded-digest-not-current-content", {"kind": "digest", "format": f}, {"steps": steps, "path": rec["path"]})
                earliest[key].setdefault(f, dg)


def extra_coverage(merged):
    n = merged["counters"].get("exhaustive_cases", 0)
    return {"exhaustive_inner_space": {"sequences_len<=3_over_{md5,xxh64,sha1}_x_patterns": len(EXH), "executed": n, "exhaustive": n >= len(EXH)}}
