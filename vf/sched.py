"""I8: deterministic two-thread line-level scheduler for the update checker (sys.monitoring LINE events, Python 3.12).

Roles: 'T' = the Updater thread, 'M' = the main thread inside the result callback / needs_update.
A schedule is a string over {T, M}: the i-th monitored line step is granted to that role.  Slots of a role that has
finished (or is parked inside the stubbed network call) are skipped; once the schedule is exhausted threads run freely."""
import sys
import threading

mon = sys.monitoring
TOOL = 3
_active = None
_codes = []
_installed = False


class Sched:
    def __init__(self, schedule, t_thread_getter):
        self.s = schedule
        self.pos = 0
        self.cv = threading.Condition()
        self.done = {"T": False, "M": False}
        self.parked = {"T": False, "M": False}
        self.trace = []
        self.stuck = False
        self._t = t_thread_getter

    def role(self):
        t = self._t()
        return "T" if t is not None and threading.current_thread() is t else "M"

    def step(self, where):
        role = self.role()
        waited = 0
        with self.cv:
            while True:
                if self.pos >= len(self.s):
                    break
                want = self.s[self.pos]
                if want == role:
                    self.pos += 1
                    break
                if self.done[want] or self.parked[want] or (want == "T" and self._t_dead()):
                    self.pos += 1
                    continue
                waited += 1
                if not self.cv.wait(timeout=0.005) and waited > 1000:
                    self.stuck = True
                    break
            self.trace.append(role + str(where))
            self.cv.notify_all()

    def _t_dead(self):
        """the checker thread ended (normally or by an uncaught exception) without telling the scheduler"""
        t = self._t()
        return t is not None and t.ident is not None and not t.is_alive()

    def finish(self, role):
        with self.cv:
            self.done[role] = True
            self.cv.notify_all()

    def park(self, role, flag=True):
        with self.cv:
            self.parked[role] = flag
            self.cv.notify_all()


def _on_line(code, lineno):
    a = _active
    if a is not None:
        a.step(lineno)


def install(codes):
    global _installed
    if not _installed:
        mon.use_tool_id(TOOL, "vf-sched")
        mon.register_callback(TOOL, mon.events.LINE, _on_line)
        _installed = True
    for c in codes:
        if c not in _codes:
            mon.set_local_events(TOOL, c, mon.events.LINE)
            _codes.append(c)


def activate(s):
    global _active
    _active = s


def deactivate():
    global _active
    _active = None
