"""O1: reference digests that share no code with ascmhl.

md5/sha1/sha512: coreutils binaries (slow path, `coreutils=True`) or hashlib (fast path; stdlib, not repository code).
xxh32/xxh64/xxh3/xxh128: the *system* libxxhash.so.0 through ctypes (a different build from the `xxhash` wheel the
tool imports) plus a pure-Python XXH64 as a third opinion.
c4: own base-58 big-integer codec over SHA-512.
`selfcheck()` validates everything against published vectors; callers exit 2 (inconclusive) when it fails.
"""
import ctypes
import hashlib
import subprocess

C4_CHARSET = "123456789ABCDEFGHJKLMNPQRSTUVWXYZabcdefghijkmnopqrstuvwxyz"
HEX_WIDTH = {"md5": 32, "sha1": 40, "xxh32": 8, "xxh64": 16, "xxh3": 16, "xxh128": 32}

_lib = None


class _H128(ctypes.Structure):
    _fields_ = [("low64", ctypes.c_uint64), ("high64", ctypes.c_uint64)]


def _xx():
    global _lib
    if _lib is None:
        lib = ctypes.CDLL("libxxhash.so.0")
        lib.XXH32.restype = ctypes.c_uint32
        lib.XXH32.argtypes = [ctypes.c_char_p, ctypes.c_size_t, ctypes.c_uint32]
        lib.XXH64.restype = ctypes.c_uint64
        lib.XXH64.argtypes = [ctypes.c_char_p, ctypes.c_size_t, ctypes.c_uint64]
        lib.XXH3_64bits.restype = ctypes.c_uint64
        lib.XXH3_64bits.argtypes = [ctypes.c_char_p, ctypes.c_size_t]
        lib.XXH3_128bits.restype = _H128
        lib.XXH3_128bits.argtypes = [ctypes.c_char_p, ctypes.c_size_t]
        _lib = lib
    return _lib


def c4_encode(digest64: bytes) -> str:
    """base-58 rendering of a 512-bit value, 'c4' prefix, left padded with '1' to 90 characters"""
    assert len(digest64) == 64
    n = int.from_bytes(digest64, "big")
    digits = []
    while n:
        n, r = divmod(n, 58)
        digits.append(C4_CHARSET[r])
    body = "".join(reversed(digits))
    return "c4" + "1" * (88 - len(body)) + body


def c4_decode(s: str) -> bytes:
    assert len(s) == 90 and s[:2] == "c4", s
    n = 0
    for ch in s[2:]:
        n = n * 58 + C4_CHARSET.index(ch)
    return n.to_bytes(64, "big")


def _coreutils(tool, data):
    p = subprocess.run([tool], input=data, stdout=subprocess.PIPE, check=True)
    return p.stdout.split()[0].decode()


def digest(fmt: str, data: bytes, coreutils=False) -> str:
    if fmt == "md5":
        return _coreutils("md5sum", data) if coreutils else hashlib.md5(data).hexdigest()
    if fmt == "sha1":
        return _coreutils("sha1sum", data) if coreutils else hashlib.sha1(data).hexdigest()
    if fmt == "c4":
        hx = _coreutils("sha512sum", data) if coreutils else hashlib.sha512(data).hexdigest()
        return c4_encode(bytes.fromhex(hx))
    lib = _xx()
    if fmt == "xxh32":
        return "%08x" % lib.XXH32(data, len(data), 0)
    if fmt == "xxh64":
        return "%016x" % lib.XXH64(data, len(data), 0)
    if fmt == "xxh3":
        return "%016x" % lib.XXH3_64bits(data, len(data))
    if fmt == "xxh128":
        r = lib.XXH3_128bits(data, len(data))
        return "%016x%016x" % (r.high64, r.low64)
    raise ValueError(fmt)


def raw(fmt: str, s: str) -> bytes:
    """digest string -> raw digest bytes"""
    if fmt == "c4":
        return c4_decode(s)
    return bytes.fromhex(s)


def well_formed(fmt: str, s: str) -> bool:
    if not isinstance(s, str):
        return False
    if fmt == "c4":
        return len(s) == 90 and s.startswith("c4") and all(ch in C4_CHARSET for ch in s[2:])
    return len(s) == HEX_WIDTH[fmt] and all(ch in "0123456789abcdef" for ch in s)


# ---- pure python XXH64 (third opinion, used by C01 on small inputs)
_P1, _P2, _P3, _P4, _P5 = (
    11400714785074694791,
    14029467366897019727,
    1609587929392839161,
    9650029242287828579,
    2870177450012600261,
)
_M = (1 << 64) - 1


def _rotl(x, r):
    return ((x << r) | (x >> (64 - r))) & _M


def _round(acc, inp):
    acc = (acc + inp * _P2) & _M
    acc = _rotl(acc, 31)
    return (acc * _P1) & _M


def _merge(acc, val):
    val = _round(0, val)
    acc ^= val
    return (acc * _P1 + _P4) & _M


def py_xxh64(data: bytes, seed=0) -> str:
    n = len(data)
    p = 0
    if n >= 32:
        v1 = (seed + _P1 + _P2) & _M
        v2 = (seed + _P2) & _M
        v3 = seed & _M
        v4 = (seed - _P1) & _M
        while p <= n - 32:
            v1 = _round(v1, int.from_bytes(data[p : p + 8], "little"))
            v2 = _round(v2, int.from_bytes(data[p + 8 : p + 16], "little"))
            v3 = _round(v3, int.from_bytes(data[p + 16 : p + 24], "little"))
            v4 = _round(v4, int.from_bytes(data[p + 24 : p + 32], "little"))
            p += 32
        h = (_rotl(v1, 1) + _rotl(v2, 7) + _rotl(v3, 12) + _rotl(v4, 18)) & _M
        h = _merge(h, v1)
        h = _merge(h, v2)
        h = _merge(h, v3)
        h = _merge(h, v4)
    else:
        h = (seed + _P5) & _M
    h = (h + n) & _M
    while p + 8 <= n:
        k1 = _round(0, int.from_bytes(data[p : p + 8], "little"))
        h ^= k1
        h = (_rotl(h, 27) * _P1 + _P4) & _M
        p += 8
    if p + 4 <= n:
        h ^= (int.from_bytes(data[p : p + 4], "little") * _P1) & _M
        h = (_rotl(h, 23) * _P2 + _P3) & _M
        p += 4
    while p < n:
        h ^= (data[p] * _P5) & _M
        h = (_rotl(h, 11) * _P1) & _M
        p += 1
    h ^= h >> 33
    h = (h * _P2) & _M
    h ^= h >> 29
    h = (h * _P3) & _M
    h ^= h >> 32
    return "%016x" % h


VECTORS_EMPTY = {
    "md5": "d41d8cd98f00b204e9800998ecf8427e",
    "sha1": "da39a3ee5e6b4b0d3255bfef95601890afd80709",
    "xxh32": "02cc5d05",
    "xxh64": "ef46db3751d8e999",
    "xxh3": "2d06800538d394c2",
    "xxh128": "99aa06d3014798d86001c324468d497f",
    "c4": "c459dsjfscH38cYeXXYogktxf4Cd9ibshE3BHUo6a58hBXmRQdZrAkZzsWcbWtDg5oQstpDuni4Hirj75GEmTc1sFT",
}
VECTORS_ABC = {
    "md5": "900150983cd24fb0d6963f7d28e17f72",
    "sha1": "a9993e364706816aba3e25717850c26c9cd0d89d",
    "xxh64": "44bc2cf5ad770999",
    "xxh32": "32d153ff",
}


def selfcheck():
    """returns list of problems (empty = oracle is healthy)"""
    bad = []
    for f, v in VECTORS_EMPTY.items():
        for cu in (False, True):
            try:
                if digest(f, b"", coreutils=cu) != v:
                    bad.append(f"empty {f} coreutils={cu}")
            except Exception as e:  # pragma: no cover
                bad.append(f"{f} raised {e!r}")
    for f, v in VECTORS_ABC.items():
        if digest(f, b"abc") != v:
            bad.append(f"abc {f}")
    if py_xxh64(b"") != VECTORS_EMPTY["xxh64"] or py_xxh64(b"abc") != VECTORS_ABC["xxh64"]:
        bad.append("py_xxh64")
    blob = bytes(range(256)) * 5
    if py_xxh64(blob) != digest("xxh64", blob):
        bad.append("py_xxh64 vs libxxhash")
    if c4_decode(VECTORS_EMPTY["c4"]) != hashlib.sha512(b"").digest():
        bad.append("c4 decode")
    for v in (0, 1, 57, 58, 58**87, 58**88 - 1, 2**512 - 1):
        b = v.to_bytes(64, "big") if v < 2**512 else None
        if b is not None and c4_decode(c4_encode(b)) != b:
            bad.append(f"c4 roundtrip {v}")
    return bad
