"""O3: independent reader for manifests and chain files (xml.etree / expat, not libxml2, no ascmhl code)."""
import xml.etree.ElementTree as ET

NS = "{urn:ASC:MHL:v2.0}"
DNS = "{urn:ASC:MHL:DIRECTORY:v2.0}"


def _t(tag):
    return tag.split("}", 1)[-1]


def _fmt_children(el):
    """[(format, text, action, hashdate)] of the children of el in document order"""
    out = []
    for c in list(el):
        out.append((_t(c.tag), c.text, c.attrib.get("action"), c.attrib.get("hashdate")))
    return out


def read_manifest_bytes(data: bytes):
    root = ET.fromstring(data)
    m = {
        "root_tag": root.tag,
        "version": root.attrib.get("version"),
        "order": [_t(c.tag) for c in list(root)],
        "creatorinfo": None,
        "processinfo": None,
        "has_hashes": False,
        "hashes": [],
        "references": [],
        "has_references": False,
    }
    for top in list(root):
        tag = _t(top.tag)
        if tag == "creatorinfo":
            ci = {"order": [_t(c.tag) for c in list(top)], "authors": [], "location": None, "comment": None}
            for c in list(top):
                t = _t(c.tag)
                if t == "creationdate":
                    ci["creationdate"] = c.text
                elif t == "hostname":
                    ci["hostname"] = c.text
                elif t == "tool":
                    ci["tool"] = {"name": c.text, "version": c.attrib.get("version")}
                elif t == "author":
                    ci["authors"].append(
                        {
                            "name": c.text,
                            "email": c.attrib.get("email"),
                            "phone": c.attrib.get("phone"),
                            "role": c.attrib.get("role"),
                        }
                    )
                elif t == "location":
                    ci["location"] = c.text
                elif t == "comment":
                    ci["comment"] = c.text
            m["creatorinfo"] = ci
        elif tag == "processinfo":
            pi = {"order": [_t(c.tag) for c in list(top)], "process": None, "roothash": None, "ignore": None}
            for c in list(top):
                t = _t(c.tag)
                if t == "process":
                    pi["process"] = c.text
                elif t == "roothash":
                    rh = {"order": [_t(x.tag) for x in list(c)], "content": [], "structure": []}
                    for x in list(c):
                        if _t(x.tag) in ("content", "structure"):
                            rh[_t(x.tag)] = _fmt_children(x)
                    pi["roothash"] = rh
                elif t == "ignore":
                    pi["ignore"] = [p.text for p in list(c) if _t(p.tag) == "pattern"]
            m["processinfo"] = pi
        elif tag == "hashes":
            m["has_hashes"] = True
            for h in list(top):
                kind = _t(h.tag)
                rec = {
                    "kind": "file" if kind == "hash" else "dir" if kind == "directoryhash" else kind,
                    "order": [_t(c.tag) for c in list(h)],
                    "path": None,
                    "size": None,
                    "lastmod": None,
                    "entries": [],
                    "content": [],
                    "structure": [],
                    "previousPath": None,
                }
                for c in list(h):
                    t = _t(c.tag)
                    if t == "path":
                        rec["path"] = c.text
                        rec["size"] = c.attrib.get("size")
                        rec["lastmod"] = c.attrib.get("lastmodificationdate")
                    elif t == "previousPath":
                        rec["previousPath"] = c.text
                    elif t == "content":
                        rec["content"] = _fmt_children(c)
                    elif t == "structure":
                        rec["structure"] = _fmt_children(c)
                    elif t == "metadata":
                        pass
                    else:
                        rec["entries"].append((t, c.text, c.attrib.get("action"), c.attrib.get("hashdate")))
                m["hashes"].append(rec)
        elif tag == "references":
            m["has_references"] = True
            for r in list(top):
                ref = {"path": None, "c4": None}
                for c in list(r):
                    if _t(c.tag) == "path":
                        ref["path"] = c.text
                    elif _t(c.tag) == "c4":
                        ref["c4"] = c.text
                m["references"].append(ref)
    return m


def read_manifest(path):
    with open(path, "rb") as f:
        return read_manifest_bytes(f.read())


def read_chain_bytes(data: bytes):
    root = ET.fromstring(data)
    out = {"root_tag": root.tag, "entries": []}
    for h in list(root):
        e = {"tag": _t(h.tag), "sequencenr": h.attrib.get("sequencenr"), "path": None, "c4": None, "order": []}
        for c in list(h):
            e["order"].append(_t(c.tag))
            if _t(c.tag) == "path":
                e["path"] = c.text
            elif _t(c.tag) == "c4":
                e["c4"] = c.text
        out["entries"].append(e)
    return out


def read_chain(path):
    with open(path, "rb") as f:
        return read_chain_bytes(f.read())
