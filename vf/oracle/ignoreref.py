"""O5: independent matcher for the three pattern classes of the quantifier (base name, glob, `dir/`),
evaluated on root-relative POSIX paths.  Returns True / False / None (None = don't care: whether the entry that a
`dir/` pattern names is excluded depends on its being a folder; callers that know pass is_dir).  Everything beneath such a
folder is excluded."""
import fnmatch

DEFAULTS = [".DS_Store", "ascmhl", "ascmhl/"]


def classify(pattern):
    if pattern.endswith("/") and "/" not in pattern[:-1]:
        return "dir"
    if "/" in pattern:
        return "anchored"  # a separator at the beginning or in the middle ties the pattern to the root folder
    if any(ch in pattern for ch in "*?["):
        return "glob"
    return "name"


def match(patterns, relpath, is_dir=None):
    """gitwildmatch subset; a leading '!' re-includes (the last matching pattern decides).
    is_dir: whether the entry itself is a folder (True: a `dir/` pattern matching its name excludes it, False: such a
    pattern says nothing about it, None: unknown to the caller - don't care is returned)"""
    if any(p.startswith("!") for p in patterns):
        res = False
        for pat in patterns:
            neg = pat.startswith("!")
            m = match([pat[1:] if neg else pat], relpath, is_dir)
            if m is True:
                res = not neg
            elif m is None and res is False and not neg:
                res = None
        return res
    comps = relpath.split("/")
    dontcare = False
    for pat in patterns:
        k = classify(pat)
        if k == "anchored":
            if "**" in pat:
                raise ValueError("'**' is not supported by the reference matcher: " + pat)
            dir_only = pat.endswith("/")
            pc = [c for c in pat.strip("/").split("/")]
            if len(comps) >= len(pc) and all(fnmatch.fnmatchcase(c, q) for c, q in zip(comps, pc)):
                if len(comps) > len(pc):
                    # beneath the matched entry; a file cannot have anything beneath it, so that entry is a folder
                    return True
                if not dir_only or is_dir is True:
                    return True
                if is_dir is None:
                    dontcare = True
            continue
        if k == "dir":
            name = pat[:-1]
            if any(fnmatch.fnmatchcase(c, name) for c in comps[:-1]):
                return True
            if fnmatch.fnmatchcase(comps[-1], name):
                if is_dir is True:
                    return True
                if is_dir is None:
                    dontcare = True
        else:
            if any(fnmatch.fnmatchcase(c, pat) for c in comps):
                return True
    return None if dontcare else False
