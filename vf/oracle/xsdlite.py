"""O4b: hand-written structural checker for the content-model rules of xsd/ASCMHL.xsd and ASCMHLDirectory.xsd
that the tool can plausibly break.  Works on the O3 dict view, so it does not depend on libxml2."""
import re

FMT_ORDER = ["c4", "md5", "sha1", "xxh128", "xxh3", "xxh64"]
ACTIONS = {"original", "verified", "failed"}
PROCESSES = {"in-place", "transfer", "flatten"}
DT = re.compile(
    r"^-?\d{4,}-(0[1-9]|1[0-2])-(0[1-9]|[12]\d|3[01])T([01]\d|2[0-3]):[0-5]\d:[0-5]\d(\.\d+)?"
    r"(Z|[+-]((0\d|1[0-3]):[0-5]\d|14:00))?$"
)
EMAIL = re.compile(r"^[^@]+@[^\.]+\..+$", re.S)
INT = re.compile(r"^[+-]?\d+$")


def is_datetime(s):
    return isinstance(s, str) and DT.match(s.strip()) is not None


def _subseq(seq, order):
    """seq must be a subsequence of order (each at most once, in order)"""
    i = 0
    for x in seq:
        while i < len(order) and order[i] != x:
            i += 1
        if i == len(order):
            return False
        i += 1
    return True


def _check_fmt_children(children, where, problems):
    fmts = [c[0] for c in children]
    if not _subseq(fmts, FMT_ORDER):
        problems.append({"rule": "format-order-or-duplicate", "where": where, "got": fmts})
    for f, text, action, hashdate in children:
        if action is not None and action not in ACTIONS:
            problems.append({"rule": "action-enum", "where": where, "got": action})
        if hashdate is not None and not is_datetime(hashdate):
            problems.append({"rule": "hashdate-datetime", "where": where, "got": hashdate})


def check_manifest(m):
    """m: dict from xmlread.read_manifest*.  Returns list of problem dicts (empty = valid for the rules covered)."""
    p = []
    if m["root_tag"] != "{urn:ASC:MHL:v2.0}hashlist":
        p.append({"rule": "root-element", "got": m["root_tag"]})
    if m["version"] != "2.0":
        p.append({"rule": "version-attr", "got": m["version"]})
    if not _subseq(m["order"], ["creatorinfo", "processinfo", "hashes", "metadata", "references"]):
        p.append({"rule": "hashlist-child-order", "got": m["order"]})
    for req in ("creatorinfo", "processinfo"):
        if req not in m["order"]:
            p.append({"rule": "missing-" + req})
    ci = m["creatorinfo"]
    if ci:
        o = [x for x in ci["order"]]
        # creationdate hostname tool author* location? comment?
        pat = re.compile(r"^creationdate,hostname,tool(,author)*(,location)?(,comment)?$")
        if not pat.match(",".join(o)):
            p.append({"rule": "creatorinfo-child-order", "got": o})
        if not is_datetime(ci.get("creationdate")):
            p.append({"rule": "creationdate-datetime", "got": ci.get("creationdate")})
        for a in ci["authors"]:
            if a["email"] is not None and not EMAIL.match(a["email"]):
                p.append({"rule": "author-email-pattern", "got": a["email"]})
    pi = m["processinfo"]
    if pi:
        if not re.match(r"^process(,roothash)?(,ignore)?$", ",".join(pi["order"])):
            p.append({"rule": "processinfo-child-order", "got": pi["order"]})
        if pi["process"] not in PROCESSES:
            p.append({"rule": "process-enum", "got": pi["process"]})
        if pi["ignore"] is not None and len(pi["ignore"]) == 0:
            p.append({"rule": "ignore-needs-pattern"})
        rh = pi["roothash"]
        if rh is not None:
            if rh["order"] != ["content", "structure"]:
                p.append({"rule": "roothash-child-order", "got": rh["order"]})
            _check_fmt_children(rh["content"], "roothash/content", p)
            _check_fmt_children(rh["structure"], "roothash/structure", p)
    if m["has_hashes"] and len(m["hashes"]) == 0:
        p.append({"rule": "hashes-empty"})
    for h in m["hashes"]:
        where = f"{h['kind']}:{h['path']!r}"
        if h["kind"] == "file":
            fm = [e[0] for e in h["entries"]]
            expect = ["path"] + fm + (["previousPath"] if h["previousPath"] is not None else [])
            if h["order"] != expect or (h["order"] and h["order"][0] != "path"):
                p.append({"rule": "hash-child-order", "where": where, "got": h["order"]})
            _check_fmt_children(h["entries"], where, p)
            if h["size"] is not None and not INT.match(h["size"].strip()):
                p.append({"rule": "size-integer", "where": where, "got": h["size"]})
        elif h["kind"] == "dir":
            expect = ["path", "content", "structure"] + (["previousPath"] if h["previousPath"] is not None else [])
            if h["order"] != expect:
                p.append({"rule": "directoryhash-child-order", "where": where, "got": h["order"]})
            _check_fmt_children(h["content"], where + "/content", p)
            _check_fmt_children(h["structure"], where + "/structure", p)
            if h["size"] is not None:
                p.append({"rule": "directoryhash-size-attr", "where": where})
        else:
            p.append({"rule": "hashes-unknown-child", "got": h["kind"]})
        if h["lastmod"] is not None and not is_datetime(h["lastmod"]):
            p.append({"rule": "lastmod-datetime", "where": where, "got": h["lastmod"]})
    if m["has_references"] and len(m["references"]) == 0:
        p.append({"rule": "references-empty"})
    for r in m["references"]:
        if r["path"] is None or r["c4"] is None:
            p.append({"rule": "reference-incomplete", "got": r})
    return p


def check_chain(c):
    p = []
    if c["root_tag"] != "{urn:ASC:MHL:DIRECTORY:v2.0}ascmhldirectory":
        p.append({"rule": "root-element", "got": c["root_tag"]})
    if len(c["entries"]) == 0:
        p.append({"rule": "directory-needs-hashlist"})
    for e in c["entries"]:
        if e["tag"] != "hashlist" or e["order"] != ["path", "c4"]:
            p.append({"rule": "hashlist-children", "got": [e["tag"], e["order"]]})
        if e["sequencenr"] is not None and not INT.match(e["sequencenr"].strip()):
            p.append({"rule": "sequencenr-integer", "got": e["sequencenr"]})
    return p
