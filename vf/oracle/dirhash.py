"""O2: independent evaluation of the compositional directory-hash definition over an in-memory tree, using O1."""
from . import refhash


class Node:
    __slots__ = ("name", "children", "data")

    def __init__(self, name, data=None):
        self.name = name
        self.data = data  # bytes for a file, None for a directory
        self.children = {}  # name -> Node (directories)

    @property
    def is_dir(self):
        return self.data is None


def build(tree, keep=lambda rel: True):
    """tree: {posix relpath: bytes | None}; keep(rel) False drops the entry (and its subtree)."""
    root = Node("")
    for rel in sorted(tree):
        comps = rel.split("/")
        skip = False
        for i in range(1, len(comps) + 1):
            if not keep("/".join(comps[:i])):
                skip = True
                break
        if skip:
            continue
        cur = root
        for c in comps[:-1]:
            if c not in cur.children:
                cur.children[c] = Node(c)
            cur = cur.children[c]
        if tree[rel] is None:
            cur.children.setdefault(comps[-1], Node(comps[-1]))
        else:
            cur.children[comps[-1]] = Node(comps[-1], tree[rel])
    return root


def hashes(node, fmt, out=None, prefix="", file_digest=None):
    """returns (content, structure) of `node`; fills out[relpath] = (content, structure) for every directory
    (root is '.').  file_digest(rel, data) may supply cached digests."""
    cont = []
    struct = []
    for name in node.children:
        ch = node.children[name]
        rel = prefix + name
        if ch.is_dir:
            c, s = hashes(ch, fmt, out, rel + "/", file_digest)
            cont.append(refhash.raw(fmt, c))
            bind = refhash.raw(fmt, s)
        else:
            d = file_digest(rel, ch.data) if file_digest else refhash.digest(fmt, ch.data)
            cont.append(refhash.raw(fmt, d))
            bind = refhash.raw(fmt, d)
        struct.append(refhash.raw(fmt, refhash.digest(fmt, name.encode("utf-8") + bind)))
    c = refhash.digest(fmt, b"".join(sorted(cont)))
    s = refhash.digest(fmt, b"".join(sorted(struct)))
    if out is not None:
        out[prefix[:-1] if prefix else "."] = (c, s)
    return c, s
