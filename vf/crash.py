"""I6: kill-point injection for `create`, run inside a forked child.

Every write-mode file the two writer modules open is proxied (unbuffered), os.mkdir / os.rename / os.replace are wrapped.
Each such operation is an event; at event number `crash_at` the pending operation is applied not at all ('none') or - for
a write - to its first half ('half'), then the process dies with os._exit(137) (no buffers flushed, no finally blocks, like
SIGKILL at that point).  Events are logged through a raw file descriptor so the log survives the exit."""
import builtins
import json
import os
import sys
import time

_real_open = builtins.open
_real_mkdir = os.mkdir
_real_rename = os.rename
_real_replace = os.replace


class _State:
    def __init__(self, crash_at, mode, logfd):
        self.k = 0
        self.crash_at = crash_at
        self.mode = mode
        self.logfd = logfd

    def ev(self, kind, path, n=None):
        """returns None (go on) or the crash mode"""
        self.k += 1
        os.write(self.logfd, (json.dumps([self.k, kind, path, n]) + "\n").encode())
        if self.k == self.crash_at:
            return self.mode
        return None


_st = None


def _die():
    if _st is not None and _st.mode in ("sigint", "sigint_after"):
        # Ctrl-C: unlike a kill the interpreter unwinds the stack (finally / with blocks run) before the process ends
        _st.crash_at = -1
        raise KeyboardInterrupt()
    os._exit(137)


def _guard(kind, path, n, real):
    """the event, then the operation. mode 'sigint_after': the Ctrl-C arrives while the operation runs, so the
    interpreter raises KeyboardInterrupt right after it has completed (still inside the caller's try blocks)"""
    m = _st.ev(kind, path, n)
    if m == "sigint_after":
        real()
        _die()
    if m:
        _die()
    return real()


class _Proxy:
    def __init__(self, f, path):
        self._f = f
        self._p = path

    def write(self, b):
        m = _st.ev("write", self._p, len(b))
        if m == "none":
            _die()
        if m == "half":
            self._f.write(bytes(b)[: len(b) // 2])
            _die()
        if m == "sigint":
            _die()
        if m == "sigint_after":
            self._f.write(b)
            _die()
        return self._f.write(b)

    def flush(self):
        return _guard("flush", self._p, None, self._f.flush)

    def close(self):
        return _guard("close", self._p, None, self._f.close)

    def __enter__(self):
        return self

    def __exit__(self, *a):
        self.close()
        return False

    def __getattr__(self, k):
        return getattr(self._f, k)


def _open(path, mode="r", *a, **kw):
    if any(c in mode for c in "wax+"):
        return _guard("open", os.fspath(path), None, lambda: _Proxy(_real_open(path, mode, buffering=0), os.fspath(path)))
    return _real_open(path, mode, *a, **kw)


def _mkdir(path, *a, **kw):
    return _guard("mkdir", os.fspath(path), None, lambda: _real_mkdir(path, *a, **kw))


def _rename(src, dst, *a, **kw):
    return _guard("rename", os.fspath(dst), os.fspath(src), lambda: _real_rename(src, dst, *a, **kw))


def _replace(src, dst, *a, **kw):
    return _guard("rename", os.fspath(dst), os.fspath(src), lambda: _real_replace(src, dst, *a, **kw))


_real_sendfile = getattr(os, "sendfile", None)
_real_remove = os.remove
_real_unlink = os.unlink
_real_link = os.link


def _fdpath(fd):
    try:
        return os.readlink("/proc/self/fd/%d" % fd)
    except OSError:
        return "fd:%d" % fd


def _sendfile(out_fd, in_fd, offset, count, *a, **kw):
    # the kernel-side copy shutil uses for files (copy across file systems): a write of up to `count` bytes
    m = _st.ev("write", _fdpath(out_fd), count)
    if m in ("none", "sigint"):
        _die()
    if m == "sigint_after":
        _real_sendfile(out_fd, in_fd, offset, count, *a, **kw)
        _die()
    if m == "half":
        try:
            left = os.fstat(in_fd).st_size - (offset or 0)
        except OSError:
            left = count
        _real_sendfile(out_fd, in_fd, offset, max(0, min(count, left) // 2))
        _die()
    return _real_sendfile(out_fd, in_fd, offset, count, *a, **kw)


def _remove(path, *a, **kw):
    return _guard("remove", os.fspath(path), None, lambda: _real_remove(path, *a, **kw))


def _unlink(path, *a, **kw):
    return _guard("remove", os.fspath(path), None, lambda: _real_unlink(path, *a, **kw))


def _link(src, dst, *a, **kw):
    return _guard("rename", os.fspath(dst), os.fspath(src), lambda: _real_link(src, dst, *a, **kw))


def install(crash_at, mode, logfd):
    global _st
    _st = _State(crash_at, mode, logfd)
    import ascmhl.chain_xml_parser as C
    import ascmhl.hashlist_xml_parser as H

    H.open = _open
    C.open = _open
    # every other module of the process too (shutil's copy fallback, tempfile, ...): the unchanged tool writes through
    # the two modules above only, so this adds no events there
    builtins.open = _open
    if _real_sendfile is not None:
        os.sendfile = _sendfile
    os.remove = _remove
    os.unlink = _unlink
    os.link = _link
    os.mkdir = _mkdir
    os.rename = _rename
    os.replace = _replace


def run_forked(fn, crash_at, mode, logpath, timeout=120):
    """fork; child installs the shim and calls fn() (returns exit code int); parent returns (status, events)
    status: 'crashed' | ('done', code) | 'timeout'"""
    sys.stdout.flush()
    sys.stderr.flush()
    pid = os.fork()
    if pid == 0:
        try:
            fd = os.open(logpath, os.O_WRONLY | os.O_CREAT | os.O_TRUNC, 0o644)
            install(crash_at, mode, fd)
            code = fn()
            os.write(fd, (json.dumps([0, "done", None, code]) + "\n").encode())
            os.close(fd)
            os._exit(0)
        except BaseException as e:  # pragma: no cover
            try:
                os.write(2, ("crash child error: %r\n" % (e,)).encode())
            finally:
                os._exit(99)
    t0 = time.monotonic()
    while True:
        p, status = os.waitpid(pid, os.WNOHANG)
        if p == pid:
            break
        if time.monotonic() - t0 > timeout:
            os.kill(pid, 9)
            os.waitpid(pid, 0)
            return "timeout", []
        time.sleep(0.001)
    events = []
    done = None
    try:
        for line in _real_open(logpath):
            e = json.loads(line)
            if e[1] == "done":
                done = e[3]
            else:
                events.append(e)
    except Exception:
        pass
    code = os.waitstatus_to_exitcode(status)
    if code == 137:
        return "crashed", events
    if mode in ("sigint", "sigint_after") and code == 0 and done is not None:
        return "crashed", events  # the interrupted command ended by itself (click turns KeyboardInterrupt into Abort)
    if code == 0 and done is not None:
        return ("done", done), events
    return ("error", code), events
