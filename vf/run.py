"""./check entry point: tier/seed handling, shard fan-out, verdict lines, evidence."""
import argparse
import hashlib
import importlib
import json
import os
import subprocess
import sys
import tempfile
import time

from . import env, findings

PROPS = ["C%02d" % i for i in range(1, 21)]


def _setup():
    os.makedirs(os.path.join(env.VERIF, "evidence"), exist_ok=True)
    os.makedirs(os.path.join(env.VERIF, "replays"), exist_ok=True)
    deps = os.path.join(env.VERIF, ".deps")
    if not os.path.isdir(os.path.join(deps, "icontract")):
        subprocess.run(
            [env.PY, "-m", "pip", "install", "-q", "--no-index", "--find-links", "/opt/veriftools/wheels", "--target", deps, "icontract"],
            stdout=subprocess.DEVNULL,
            stderr=subprocess.DEVNULL,
        )
    from .oracle import refhash

    bad = refhash.selfcheck()
    if bad:
        print("setup: reference hash oracle unhealthy:", bad)
        return 2
    env.bootstrap()
    print("setup ok: repo", env.REPO, "scratch", env.scratch_base(), "icontract", os.path.isdir(os.path.join(deps, "icontract")))
    return 0


def run_property(prop, tier, seed, replay=None, shards=None, quiet=False):
    t0 = time.monotonic()
    mon = importlib.import_module("vf.monitors." + prop.lower())
    b = mon.budget(tier)
    nsh = shards or min(16, os.cpu_count() or 4, max(1, b["cases"]))
    if b.get("serial"):
        nsh = 1
    tmp = tempfile.mkdtemp(prefix="vfres-", dir=env.scratch_base())
    procs = []
    only = None
    if replay:
        rp = json.load(open(replay))
        only = rp["case"]
        tier = rp.get("tier", tier)
        nsh = 1
    for s in range(nsh):
        out = os.path.join(tmp, f"{s}.json")
        cmd = [env.PY, "-m", "vf.worker", prop, tier, str(seed), str(s), str(nsh), out]
        if only:
            cmd.append(only)
        e = dict(os.environ)
        e["PYTHONPATH"] = env.VERIF + os.pathsep + e.get("PYTHONPATH", "")
        e["PYTHONHASHSEED"] = "0"
        e["PYTHONDONTWRITEBYTECODE"] = "1"
        procs.append((s, out, subprocess.Popen(cmd, cwd=env.VERIF, env=e, stderr=subprocess.PIPE)))
    merged = {"evaluations": 0, "classes": set(), "counters": {}, "samples": [], "violations": [], "harness_errors": [], "cases": 0, "cases_skipped_time": 0}
    dead = []
    deadline = time.monotonic() + b["seconds"] * 4 + 300
    for s, out, p in procs:
        try:
            _, err = p.communicate(timeout=max(1, deadline - time.monotonic()))
        except subprocess.TimeoutExpired:
            p.kill()
            _, err = p.communicate()
            dead.append((s, "watchdog"))
            continue
        if p.returncode != 0 or not os.path.exists(out):
            dead.append((s, f"exit {p.returncode}: {err.decode('utf-8', 'replace')[-1500:]}"))
            continue
        r = json.load(open(out))
        merged["evaluations"] += r["evaluations"]
        merged["cases"] += r["cases"]
        merged["cases_skipped_time"] += r["cases_skipped_time"]
        merged["classes"].update(r["classes"])
        for k, v in r["counters"].items():
            merged["counters"][k] = merged["counters"].get(k, 0) + v
        for smp in r["samples"]:
            if len(merged["samples"]) < 5:
                merged["samples"].append(smp)
        merged["violations"] += r["violations"]
        merged["harness_errors"] += r["harness_errors"]
    import shutil

    shutil.rmtree(tmp, ignore_errors=True)

    known, fixed = findings.load()
    kn = known.get(prop, {})
    unlisted, listed = {}, {}
    for v in merged["violations"]:
        (listed if v["key"] in kn else unlisted).setdefault(v["key"], []).append(v)
    lines = []
    for key, vs in sorted(listed.items()):
        lines.append(f"KNOWN-FINDING: property={prop} key={key} {kn[key]} ({len(vs)} occurrence(s) this run)")
    rdir = os.path.join(env.VERIF, "replays", prop) if not os.environ.get("VF_NO_EVIDENCE") else os.path.join(env.scratch_base(), "vf-replays-mut", prop)
    for key, vs in sorted(unlisted.items()):
        v = vs[0]
        os.makedirs(rdir, exist_ok=True)
        h = hashlib.sha256((key + v["case"]).encode()).hexdigest()[:12]
        path = os.path.join(rdir, f"{key}-{h}.json")
        with open(path, "w", encoding="utf-8", errors="backslashreplace") as f:  # names may hold bytes that are not UTF-8
            json.dump({"property": prop, "tier": tier, "seed": seed, "case": v["case"], "key": key, "sig": v["sig"], "detail": v["detail"], "occurrences": len(vs)}, f, indent=1, ensure_ascii=False)
        lines.append(f"VIOLATION property={prop} replay={path} key={key} occurrences={len(vs)} sig={json.dumps(v['sig'], ensure_ascii=False)[:300]}")
    inconclusive = []
    if dead:
        inconclusive.append("worker-died:" + ";".join(f"{s}:{w}" for s, w in dead)[:2000])
    if merged["harness_errors"]:
        inconclusive.append("harness-error:" + merged["harness_errors"][0]["case"] + " " + merged["harness_errors"][0]["trace"][-1200:])
    need = getattr(mon, "MIN_DECIDING", {})
    if not replay:
        for k, mn in need.items():
            mn = mn.get(tier, 1) if isinstance(mn, dict) else mn
            if merged["counters"].get(k, 0) < mn:
                inconclusive.append(f"deciding-counter-low:{k}={merged['counters'].get(k, 0)}<{mn}")
        if merged["evaluations"] == 0:
            inconclusive.append("nothing-evaluated")
        gl = merged["counters"].get("generator_glitch_cases_dropped", 0)
        if gl > max(3, 0.005 * max(1, merged["cases"])):
            inconclusive.append(f"generator-glitches-not-rare:{gl}/{merged['cases']}")

    wall = time.monotonic() - t0
    if not replay and not os.environ.get("VF_NO_EVIDENCE"):
        cov = {
            "evaluations": merged["evaluations"],
            "distinct_nontrivial": len(merged["classes"]),
            "rule": mon.RULE,
            "samples": merged["samples"] or ["(none)"],
            "cases": merged["cases"],
            "cases_skipped_for_time": merged["cases_skipped_time"],
            "counters": dict(sorted(merged["counters"].items())),
            "class_examples": sorted(merged["classes"])[:40],
            "known_findings_seen": {k: len(v) for k, v in listed.items()},
            "unlisted_violation_keys": {k: len(v) for k, v in unlisted.items()},
            "inconclusive": inconclusive,
            "shards": nsh,
        }
        if hasattr(mon, "extra_coverage"):
            cov.update(mon.extra_coverage(merged))
        ev = {
            "property_id": prop,
            "tier": tier,
            "seed": seed,
            "level": mon.LEVEL,
            "coverage": cov,
            "assumptions": getattr(mon, "ASSUMPTIONS", []),
            "wall_s": round(wall, 2),
            "violations": sum(len(v) for v in unlisted.values()),
        }
        os.makedirs(os.path.join(env.VERIF, "evidence"), exist_ok=True)
        with open(os.path.join(env.VERIF, "evidence", prop + ".json"), "w", encoding="utf-8", errors="backslashreplace") as f:
            json.dump(ev, f, indent=1, ensure_ascii=False)
    if not quiet:
        for l in lines:
            print(l)
        c = merged["counters"]
        print(
            f"{prop} tier={tier} seed={seed} cases={merged['cases']} evaluations={merged['evaluations']} "
            f"distinct_classes={len(merged['classes'])} skipped_for_time={merged['cases_skipped_time']} wall={wall:.1f}s"
        )
        top = sorted(c.items())[:60]
        print("  counters:", ", ".join(f"{k}={v}" for k, v in top))
    if inconclusive and not quiet:
        for i in inconclusive:
            print(f"INCONCLUSIVE property={prop} reason={i}")
    if unlisted:
        return 1, merged
    if inconclusive:
        return 2, merged
    return 0, merged


def _safe_stdio():
    # file names with bytes that are not UTF-8 reach the report lines as lone surrogates
    for st in (sys.stdout, sys.stderr):
        try:
            st.reconfigure(errors="backslashreplace")
        except Exception:
            pass


def main(argv=None):
    _safe_stdio()
    argv = argv if argv is not None else sys.argv[1:]
    if not argv:
        print(__doc__)
        return 2
    if argv[0] == "setup":
        return _setup()
    if argv[0] == "selftest":
        from . import selftest

        return selftest.main(argv[1:])
    ap = argparse.ArgumentParser()
    ap.add_argument("prop")
    ap.add_argument("--tier", default=os.environ.get("VERIF_TIER") or "quick")
    ap.add_argument("--replay")
    ap.add_argument("--shards", type=int)
    a = ap.parse_args(argv)
    if os.environ.get("VERIF_TIER") in ("quick", "thorough") and "--tier" not in argv:
        a.tier = os.environ["VERIF_TIER"]
    prop = a.prop.upper()
    if prop not in PROPS:
        print("unknown property", prop)
        return 2
    from .oracle import refhash

    bad = refhash.selfcheck()
    if bad:
        print(f"INCONCLUSIVE property={prop} reason=reference-oracle-unhealthy:{bad}")
        return 2
    rc, _ = run_property(prop, a.tier, env.base_seed(), a.replay, a.shards)
    return rc


if __name__ == "__main__":
    sys.exit(main())
