"""python -m vf.seedhealth [substr] : is every seeded change still what its meta.json says?  For each seeded/<id>: copy the
repository's working tree to scratch, apply patch.diff, run demo.py against the copy (expected: exit != 0, the break shows)
and against the unpatched tree (expected: exit 0).  A seed whose demonstration passes with the patch applied has been
neutralised by a later repository fix (or by a re-base): it is reported, and listed in meta.json as `neutralised`."""
import json
import os
import shutil
import subprocess
import sys
from concurrent.futures import ThreadPoolExecutor

from . import env


def one(sid):
    sd = os.path.join(env.VERIF, "seeded", sid)
    work = os.path.join(env.scratch_base(), "vf-health-%d-%s" % (os.getpid(), sid))
    shutil.rmtree(work, ignore_errors=True)
    shutil.copytree("/repo", work, ignore=shutil.ignore_patterns(".git", "__pycache__", "*.pyc", ".pytest_cache"))
    out = {"id": sid}
    try:
        e = dict(os.environ, PYTHONPATH=work, PYTHONDONTWRITEBYTECODE="1")
        base = subprocess.run([env.PY, os.path.join(sd, "demo.py")], cwd=work, env=e, stdout=subprocess.PIPE, stderr=subprocess.STDOUT, timeout=900)
        out["unpatched"] = base.returncode
        p = subprocess.run(["git", "apply", "--whitespace=nowarn", os.path.join(sd, "patch.diff")], cwd=work, stdout=subprocess.PIPE, stderr=subprocess.STDOUT)
        if p.returncode != 0:
            out["error"] = "patch does not apply"
            return out
        r = subprocess.run([env.PY, os.path.join(sd, "demo.py")], cwd=work, env=e, stdout=subprocess.PIPE, stderr=subprocess.STDOUT, timeout=900)
        out["patched"] = r.returncode
        out["tail"] = r.stdout.decode("utf-8", "replace")[-200:]
    except subprocess.TimeoutExpired:
        out["error"] = "timeout"
    finally:
        shutil.rmtree(work, ignore_errors=True)
    return out


def main(argv):
    only = argv[0] if argv else None
    ids = sorted(n for n in os.listdir(os.path.join(env.VERIF, "seeded")) if os.path.exists(os.path.join(env.VERIF, "seeded", n, "demo.py")) and (not only or only in n))
    bad = 0
    res = []
    with ThreadPoolExecutor(max_workers=8) as ex:
        for o in ex.map(one, ids):
            res.append(o)
            ok = o.get("unpatched") == 0 and o.get("patched") not in (0, None)
            if not ok:
                bad += 1
            print(("OK      " if ok else "CHECK   ") + json.dumps({k: v for k, v in o.items() if k != "tail"}))
            sys.stdout.flush()
    with open(os.path.join(env.VERIF, "seeded", "health.json"), "w") as f:
        json.dump(res, f, indent=1)
    print(f"seedhealth: {len(ids)} seeds, {bad} to check")
    return 0


if __name__ == "__main__":
    sys.exit(main(sys.argv[1:]))
