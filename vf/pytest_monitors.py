"""I11: pytest plugin (`-p vf.pytest_monitors`) that puts icontract postconditions on the real classes while the
repository's own 79 tests run:
  * MHLHashList.append_hash  -> the record is found under its path and under its previous path (lookup index invariant)
  * MHLHistory.load_from_path -> generation numbers strictly ascending, chain sequence numbers ascending
  * chain_xml_parser.parse    -> sequence numbers ascending
Evaluation counters and violations are written to $VF_CONTRACT_OUT at session end (zero evaluations = not evaluated)."""
import json
import os
import sys

_counts = {"append_hash": 0, "load_from_path": 0, "chain_parse": 0}
_violations = []


class ContractBroken(AssertionError):
    pass


def indexed_under_both_names(self, media_hash):
    _counts["append_hash"] += 1
    ok = self.media_hashes_path_map.get(media_hash.path) is media_hash and (
        media_hash.previous_path is None or self.media_hashes_path_map.get(media_hash.previous_path) is media_hash
    )
    if not ok:
        _violations.append(["append_hash", str(media_hash.path), str(media_hash.previous_path)])
    return ok


def generations_ascending(result):
    _counts["load_from_path"] += 1
    nums = [hl.generation_number for hl in result.hash_lists]
    ok = all(a < b for a, b in zip(nums, nums[1:]))
    if result.chain is not None and result.chain.generations:
        seq = [int(g.generation_number) for g in result.chain.generations]
        ok = ok and all(a < b for a, b in zip(seq, seq[1:]))
    if not ok:
        _violations.append(["load_from_path", nums])
    return ok


def chain_sequence_ascending(result):
    _counts["chain_parse"] += 1
    seq = [int(g.generation_number) for g in result.generations]
    ok = all(a < b for a, b in zip(seq, seq[1:]))
    if not ok:
        _violations.append(["chain_parse", seq])
    return ok


def pytest_configure(config):
    deps = os.path.join(os.path.dirname(os.path.dirname(os.path.abspath(__file__))), ".deps")
    if os.path.isdir(deps) and deps not in sys.path:
        sys.path.append(deps)
    try:
        import icontract
    except ImportError:
        _counts["icontract_missing"] = 1
        return
    import ascmhl.chain_xml_parser as C
    import ascmhl.hashlist as HL
    import ascmhl.history as H

    HL.MHLHashList.append_hash = icontract.ensure(indexed_under_both_names, error=ContractBroken)(HL.MHLHashList.append_hash)
    H.MHLHistory.load_from_path = classmethod(icontract.ensure(generations_ascending, error=ContractBroken)(H.MHLHistory.load_from_path.__func__))
    wrapped = icontract.ensure(chain_sequence_ascending, error=ContractBroken)(C.parse)
    C.parse = wrapped
    H.chain_xml_parser.parse = wrapped


def pytest_sessionfinish(session, exitstatus):
    out = os.environ.get("VF_CONTRACT_OUT")
    if out:
        with open(out, "w") as f:
            json.dump({"counts": _counts, "violations": _violations[:20], "exitstatus": int(exitstatus)}, f)
