"""Regenerates MANIFEST.json from the monitors that exist (python -m vf.mkmanifest)."""
import importlib
import json
import os
import subprocess

from . import env

PROPS = ["C%02d" % i for i in range(1, 21)]


def main():
    checks = []
    na = []
    for p in PROPS:
        path = os.path.join(env.VERIF, "vf", "monitors", p.lower() + ".py")
        if not os.path.exists(path):
            na.append({"property_id": p, "reason": "monitor not built yet (build in progress; the design in DESIGN.md section 3 applies)"})
            continue
        mon = importlib.import_module("vf.monitors." + p.lower())
        checks.append(
            {
                "property_id": p,
                "quick_cmd": f"./check {p} --tier quick",
                "thorough_cmd": f"./check {p} --tier thorough",
                "evidence_file": f"evidence/{p}.json",
                "replay_cmd_template": f"./check {p} --replay {{path}}",
                "engine": "vf",
                "level_claimed": {
                    "category": mon.LEVEL,
                    "text": mon.LEVEL_TEXT
                    if hasattr(mon, "LEVEL_TEXT")
                    else " ".join((mon.__doc__ or "").split())
                    + " || Explored per run: "
                    + mon.RULE
                    + " || Applied to every case"
                    + ("" if getattr(mon, "SPELLING", True) else " (argument spelling controlled by the monitor itself)")
                    + ": random spelling of the root / -sf arguments (trailing and doubled separators, relative, ./, ., sub/..), -v at random, a random time zone, the system temp folder on the same or on another file system than the tree; further input classes added after the seeding rounds are listed per round in DESIGN.md section 8.5 and counted in the evidence file."
                    + " || Verdict: held on the executions observed (counts in the evidence file), never 'verified'; a run whose deciding counters are too low exits 2 (inconclusive).",
                    "design_ref": f"DESIGN.md section 3 ({p}) and section 8 (as built)",
                },
                "level_note": "; ".join(getattr(mon, "ASSUMPTIONS", [])) or "oracles O1-O7 of DESIGN.md section 2.4 are trusted",
                "technique": getattr(mon, "TECHNIQUE", "runtime monitoring: reference-model oracle over generated executions of the real code"),
            }
        )
    try:
        commits = subprocess.run(["git", "-C", env.REPO, "log", "--format=%h %s", "--grep=^hook:"], stdout=subprocess.PIPE).stdout.decode().split("\n")
        commits = [c.split()[0] for c in commits if c.strip()]
    except Exception:
        commits = []
    man = {
        "version": 1,
        "setup_cmd": "./check setup",
        "hooks": {
            "guard": "ASCMHL_VERIF",
            "enable": "no source hooks: all instrumentation is applied from the harness at import time (audit hook, module-level shims); checks import /repo's working tree directly",
            "baseline_off_cmd": "cd /repo && /venv/bin/python -m pytest -ra -q -p no:cacheprovider --timeout=900 --continue-on-collection-errors",
            "source_commits": commits,
            "add_only": True,
        },
        "engines": [
            {
                "name": "vf",
                "path": "vf/",
                "serves_properties": [c["property_id"] for c in checks],
                "kind_free_text": "runtime monitors (reference-model oracles, invariant monitors, fault injectors, controlled scheduler) over generated executions of the real code on a real file system",
            }
        ],
        "checks": checks,
        "not_applicable": na,
        "notes": "exit 0 held / 1 VIOLATION / 2 INCONCLUSIVE; KNOWN_FINDINGS.txt lists recorded and fixed findings; see DESIGN.md",
    }
    with open(os.path.join(env.VERIF, "MANIFEST.json"), "w") as f:
        json.dump(man, f, indent=1)
    print("MANIFEST.json:", len(checks), "checks,", len(na), "not_applicable")


if __name__ == "__main__":
    main()
