"""I2: snapshot of a directory tree (type, content hash, size, mode, mtime_ns) and a differ."""
import hashlib
import os
import stat


def snap(root, with_mtime=True):
    out = {}
    root = os.path.abspath(root)

    def rec(p, rel):
        st = os.lstat(p)
        if stat.S_ISDIR(st.st_mode):
            out[rel] = ("d", None, 0, stat.S_IMODE(st.st_mode), st.st_mtime_ns if with_mtime else 0)
            for n in sorted(os.listdir(p)):
                rec(os.path.join(p, n), n if rel == "." else rel + "/" + n)
        elif stat.S_ISREG(st.st_mode):
            with open(p, "rb") as f:
                h = hashlib.sha256(f.read()).hexdigest()
            out[rel] = ("f", h, st.st_size, stat.S_IMODE(st.st_mode), st.st_mtime_ns if with_mtime else 0)
        else:
            out[rel] = ("o", None, 0, stat.S_IMODE(st.st_mode), 0)

    rec(root, ".")
    return out


def diff(a, b):
    added = sorted(k for k in b if k not in a)
    removed = sorted(k for k in a if k not in b)
    changed = {}
    for k in a:
        if k in b and a[k] != b[k]:
            fields = []
            for i, nm in enumerate(("type", "content", "size", "mode", "mtime")):
                if a[k][i] != b[k][i]:
                    fields.append(nm)
            changed[k] = fields
    return {"added": added, "removed": removed, "changed": changed}


def empty(d):
    return not d["added"] and not d["removed"] and not d["changed"]
