"""I9: raw-socket fault server on 127.0.0.1 used through the *real* requests stack (the child process only rewrites the URL).

behaviour strings:
  ok:<json body>            200 with that body
  status:<code>             HTTP error status with a small JSON body
  delay:<seconds>:<json>    wait, then 200
  hang                      accept, read the request, never answer (until the server is stopped)
  rst                       accept, then reset the connection
  close                     accept, then close without answering
  trunc:<json>              200 with Content-Length larger than what is sent, then close
  slowhead:<seconds>:<json> status line and headers dripped over that time
  slowbody:<seconds>:<json> body dripped over that time
  raw:<bytes text>          send this instead of an HTTP response
"""
import socket
import struct
import threading
import time


class FaultServer:
    def __init__(self):
        self.sock = socket.socket(socket.AF_INET, socket.SOCK_STREAM)
        self.sock.setsockopt(socket.SOL_SOCKET, socket.SO_REUSEADDR, 1)
        self.sock.bind(("127.0.0.1", 0))
        self.sock.listen(16)
        self.port = self.sock.getsockname()[1]
        self.behaviour = "ok:{}"
        self.hits = []
        self._stop = threading.Event()
        self._t = threading.Thread(target=self._loop, daemon=True)
        self._t.start()

    def _loop(self):
        self.sock.settimeout(0.2)
        while not self._stop.is_set():
            try:
                c, _ = self.sock.accept()
            except socket.timeout:
                continue
            except OSError:
                return
            threading.Thread(target=self._handle, args=(c, self.behaviour), daemon=True).start()

    def _send_ok(self, c, body, status="200 OK", extra_len=0):
        b = body.encode()
        c.sendall(f"HTTP/1.1 {status}\r\nContent-Type: application/json\r\nContent-Length: {len(b) + extra_len}\r\nConnection: close\r\n\r\n".encode() + b)

    def _handle(self, c, beh):
        t0 = time.monotonic()
        try:
            c.settimeout(5)
            try:
                c.recv(65536)
            except Exception:
                pass
            kind, _, rest = beh.partition(":")
            self.hits.append((kind, t0))
            if kind == "ok":
                self._send_ok(c, rest)
            elif kind == "status":
                self._send_ok(c, '{"message": "nope"}', status=rest + " X")
            elif kind == "delay":
                d, _, body = rest.partition(":")
                self._stop.wait(float(d))
                self._send_ok(c, body)
            elif kind == "hang":
                self._stop.wait(60)
            elif kind == "rst":
                c.setsockopt(socket.SOL_SOCKET, socket.SO_LINGER, struct.pack("ii", 1, 0))
            elif kind == "close":
                pass
            elif kind == "trunc":
                self._send_ok(c, rest[: max(1, len(rest) // 2)], extra_len=50)
            elif kind == "slowhead":
                d, _, body = rest.partition(":")
                b = body.encode()
                head = f"HTTP/1.1 200 OK\r\nContent-Type: application/json\r\nContent-Length: {len(b)}\r\nConnection: close\r\n\r\n".encode()
                for i in range(0, len(head), 8):
                    c.sendall(head[i : i + 8])
                    self._stop.wait(float(d) / (len(head) / 8 + 1))
                c.sendall(b)
            elif kind == "slowbody":
                d, _, body = rest.partition(":")
                b = body.encode()
                c.sendall(f"HTTP/1.1 200 OK\r\nContent-Type: application/json\r\nContent-Length: {len(b)}\r\nConnection: close\r\n\r\n".encode())
                for i in range(len(b)):
                    c.sendall(b[i : i + 1])
                    self._stop.wait(float(d) / max(1, len(b)))
            elif kind == "redirect":
                # rest = "loop" | "ok:<json>"; the Location always points back to this server
                if rest == "loop" or not getattr(self, "_redirected", False):
                    self._redirected = rest != "loop"
                    c.sendall(f"HTTP/1.1 302 Found\r\nLocation: http://127.0.0.1:{self.port}/again\r\nContent-Length: 0\r\nConnection: close\r\n\r\n".encode())
                else:
                    self._redirected = False
                    self._send_ok(c, rest.partition(":")[2])
            elif kind == "raw":
                c.sendall(rest.encode())
        except Exception:
            pass
        finally:
            try:
                c.close()
            except Exception:
                pass

    def stop(self):
        self._stop.set()
        try:
            self.sock.close()
        except Exception:
            pass


def closed_port():
    """a port on which nothing listens (connection refused)"""
    s = socket.socket()
    s.bind(("127.0.0.1", 0))
    p = s.getsockname()[1]
    s.close()
    return p
