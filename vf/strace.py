"""I7: real sub-processes under strace.

trace_mutations(): syscall-level list of file-system mutations of a command (sees writes from C extensions that no Python
audit event reports).  kill_at(): run a command and deliver a real SIGKILL on entering the N-th syscall of a given kind."""
import os
import re
import shutil
import subprocess

from . import env

STRACE = shutil.which("strace")
_LINE = re.compile(r"^(?:\d+\s+)?(\w+)\((.*)\)\s+=\s+(-?\d+|\?)")
_STR = re.compile(r'"((?:[^"\\]|\\.)*)"')
WRITE_FLAGS = ("O_WRONLY", "O_RDWR", "O_CREAT", "O_TRUNC", "O_APPEND")
MUT_CALLS = {"mkdir", "mkdirat", "rename", "renameat", "renameat2", "unlink", "unlinkat", "rmdir", "utimensat", "utimes", "utime", "futimesat", "chmod", "fchmodat", "chown", "fchownat", "lchown", "truncate", "link", "linkat", "symlink", "symlinkat", "mknod", "mknodat", "setxattr", "lsetxattr", "removexattr"}


def available():
    return STRACE is not None


def _unescape(s):
    try:
        return s.encode("latin-1", "backslashreplace").decode("unicode_escape").encode("latin-1", "replace").decode("utf-8", "replace")
    except Exception:
        return s


def _child_env(extra=None):
    e = dict(os.environ)
    e["PYTHONPATH"] = env.REPO + os.pathsep + env.VERIF
    e["VF_REPO"] = env.REPO
    e["PYTHONDONTWRITEBYTECODE"] = "1"
    e["PYTHONUTF8"] = "1"
    if extra:
        e.update(extra)
    return e


def trace_mutations(tool, argv, logpath, cwd=None, extra_env=None, timeout=120):
    """returns (exit code, [(syscall, [paths], raw line)]) of successful mutating syscalls"""
    cmd = [STRACE, "-f", "-qq", "-s", "4096", "-e", "trace=%file", "-o", logpath, env.PY, "-m", "vf.cli_entry", tool] + [str(a) for a in argv]
    p = subprocess.run(cmd, cwd=cwd, env=_child_env(extra_env), stdout=subprocess.PIPE, stderr=subprocess.PIPE, timeout=timeout)
    out = []
    nlines = 0
    with open(logpath, errors="replace") as f:
        for line in f:
            nlines += 1
            m = _LINE.match(line)
            if not m:
                continue
            call, args, ret = m.group(1), m.group(2), m.group(3)
            if ret.startswith("-") or ret == "?":
                continue
            paths = [_unescape(x) for x in _STR.findall(args)]
            if call in ("open", "openat", "creat"):
                if call != "creat" and not any(fl in args for fl in WRITE_FLAGS):
                    continue
            elif call not in MUT_CALLS:
                continue
            out.append((call, paths, line.strip()[:300]))
    return p.returncode, out, nlines, p.stdout.decode("utf-8", "replace"), p.stderr.decode("utf-8", "replace")


def count_syscalls(tool, argv, logpath, which="write,rename,mkdir", cwd=None, extra_env=None, timeout=120):
    cmd = [STRACE, "-f", "-qq", "-e", "trace=" + which, "-o", logpath, env.PY, "-m", "vf.cli_entry", tool] + [str(a) for a in argv]
    p = subprocess.run(cmd, cwd=cwd, env=_child_env(extra_env), stdout=subprocess.PIPE, stderr=subprocess.PIPE, timeout=timeout)
    counts = {}
    with open(logpath, errors="replace") as f:
        for line in f:
            m = _LINE.match(line)
            if m:
                counts[m.group(1)] = counts.get(m.group(1), 0) + 1
    return p.returncode, counts


def kill_at(tool, argv, syscall, n, cwd=None, extra_env=None, timeout=120):
    """SIGKILL on entering the n-th `syscall`; returns the process' return code (-9 when killed)"""
    cmd = [STRACE, "-f", "-qq", "-o", "/dev/null", "-e", "trace=" + syscall, "-e", f"inject={syscall}:signal=SIGKILL:when={n}", env.PY, "-m", "vf.cli_entry", tool] + [str(a) for a in argv]
    p = subprocess.run(cmd, cwd=cwd, env=_child_env(extra_env), stdout=subprocess.PIPE, stderr=subprocess.PIPE, timeout=timeout)
    return p.returncode
