"""helper: python -m vf.mkmut <name> <props,comma> <repo-relative file> <old> <new> [<file2> <old2> <new2> ...]
writes mutants/<name>.patch (unified diff, git-apply compatible) and registers it in mutants/index.json"""
import difflib
import json
import os
import sys

from . import env


def main():
    name, props = sys.argv[1], sys.argv[2].split(",")
    triples = sys.argv[3:]
    out = []
    for i in range(0, len(triples), 3):
        rel, old, new = triples[i : i + 3]
        src = open(os.path.join("/repo", rel)).read()
        if src.count(old) != 1:
            print(f"pattern occurs {src.count(old)} times in {rel}: {old!r}")
            return 1
        dst = src.replace(old, new)
        out += list(difflib.unified_diff(src.splitlines(True), dst.splitlines(True), "a/" + rel, "b/" + rel))
    path = os.path.join(env.VERIF, "mutants", name + ".patch")
    with open(path, "w") as f:
        f.write("".join(out))
    ip = os.path.join(env.VERIF, "mutants", "index.json")
    idx = json.load(open(ip))
    idx[name + ".patch"] = {"props": props, "note": "hand-written mutant"}
    json.dump(idx, open(ip, "w"), indent=1, sort_keys=True)
    print("wrote", path)


if __name__ == "__main__":
    sys.exit(main())
