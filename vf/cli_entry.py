"""Child-process entry: install the shims requested through the environment, then hand over to the real CLI.

  python -m vf.cli_entry ascmhl <args>         -> ascmhl.cli.ascmhl.mhltool_cli
  python -m vf.cli_entry ascmhl-debug <args>   -> ascmhl.cli.ascmhl_debug.mhldebugtool_cli
  python -m vf.cli_entry bare:<cmd> <args>     -> ascmhl.commands.<cmd> without importing ascmhl.cli (C20 baseline)
env: VF_NOW=<epoch> freeze clock; VF_TZ=<zone>; VF_HTTP=<port> redirect requests.get to 127.0.0.1:<port>;
     VF_STAMP=<file> write monotonic stamps (start, command done, exit) as JSON for C20."""
import json
import os
import sys
import time


def main():
    from . import env

    env.bootstrap()
    tool = sys.argv[1]
    args = sys.argv[2:]
    stamp = os.environ.get("VF_STAMP")
    stamps = {"t0": time.monotonic()}
    if os.environ.get("VF_TZ"):
        from . import clock

        clock.set_zone(os.environ["VF_TZ"])
    if os.environ.get("VF_HTTP"):
        import requests

        port = int(os.environ["VF_HTTP"])
        real_get = requests.get

        def get(url, *a, **kw):
            stamps.setdefault("get_called", time.monotonic())
            stamps["url"] = url
            try:
                return real_get(f"http://127.0.0.1:{port}/repos/ascmitc/mhl/releases/latest", *a, **kw)
            finally:
                stamps["get_returned"] = time.monotonic()

        requests.get = get
    if os.environ.get("VF_NOW"):
        import ascmhl.commands  # noqa  make sure the modules that copied `datetime` exist before patching
        from . import clock

        clock.freeze(float(os.environ["VF_NOW"]))

    def dump():
        if stamp:
            stamps["t_exit"] = time.monotonic()
            try:
                import threading

                stamps["threads"] = [(t.name, t.daemon, t.is_alive()) for t in threading.enumerate()]
            except Exception:
                pass
            with open(stamp, "w") as f:
                json.dump(stamps, f)

    import atexit

    atexit.register(dump)
    sys.argv = [tool] + args
    if tool == "ascmhl":
        from ascmhl.cli.ascmhl import mhltool_cli

        mhltool_cli()
    elif tool == "ascmhl-debug":
        from ascmhl.cli.ascmhl_debug import mhldebugtool_cli

        mhldebugtool_cli()
    elif tool.startswith("bare:"):
        import ascmhl.commands as c

        name = tool.split(":", 1)[1]
        cmd = {"xsd-schema-check": c.xsd_schema_check}.get(name) or getattr(c, name)
        cmd(prog_name=name)
    else:
        raise SystemExit(f"unknown tool {tool}")


if __name__ == "__main__":
    main()
