"""python -m vf.seedimport C07 [name]  — take the uncommitted change a sub-agent left in /tmp/seed-C07 plus its demo and
README from /tmp/seedout/C07, confirm (a) the repository's tests pass with it, (b) the demo fails with it and passes
without it, and store it as seeded/<C07-name>/{patch.diff, demo.py, README.md, meta.json}."""
import json
import os
import shutil
import subprocess
import sys

from . import env


def sh(cmd, cwd=None, envx=None):
    e = dict(os.environ)
    if envx:
        e.update(envx)
    p = subprocess.run(cmd, cwd=cwd, env=e, shell=isinstance(cmd, str), stdout=subprocess.PIPE, stderr=subprocess.STDOUT)
    return p.returncode, p.stdout.decode("utf-8", "replace")


def main():
    prop = sys.argv[1]
    name = sys.argv[2] if len(sys.argv) > 2 else "a"
    rnd = sys.argv[3] if len(sys.argv) > 3 else ""
    wt = f"/tmp/seed{rnd}-{prop}"
    out = f"/tmp/seedout{rnd}/{prop}"
    rc, diff = sh(["git", "-C", wt, "diff"])
    if not diff.strip():
        print("no uncommitted change in", wt)
        return 1
    dst = os.path.join(env.VERIF, "seeded", f"{prop}-{name}")
    os.makedirs(dst, exist_ok=True)
    with open(os.path.join(dst, "patch.diff"), "w") as f:
        f.write(diff)
    ex = {"PYTHONPATH": wt, "PYTHONDONTWRITEBYTECODE": "1"}
    rc_t, t = sh([env.PY, "-m", "pytest", "-q", "-p", "no:cacheprovider", "tests"], cwd=wt, envx=ex)
    tests = t.strip().splitlines()[-1] if t.strip() else ""
    demo = os.path.join(out, "demo.py")
    rc_with, o_with = sh([env.PY, demo], cwd=wt, envx=ex)
    # no `git stash`: the stash is shared by all linked worktrees of /repo and other agents may be using it
    pf = os.path.join(dst, "patch.diff")
    rc_r, o_r = sh(["git", "-C", wt, "apply", "-R", pf])
    try:
        rc_without, o_without = sh([env.PY, demo], cwd=wt, envx=ex)
    finally:
        if rc_r == 0:
            sh(["git", "-C", wt, "apply", pf])
    ok = rc_t == 0 and rc_with != 0 and rc_without == 0
    shutil.copy(demo, os.path.join(dst, "demo.py"))
    if os.path.exists(os.path.join(out, "README.md")):
        shutil.copy(os.path.join(out, "README.md"), os.path.join(dst, "README.md"))
    # does the patch apply to /repo's HEAD?
    rc_a, o_a = sh(["git", "-C", "/repo", "apply", "--check", os.path.join(dst, "patch.diff")])
    meta = {
        "property": prop,
        "needs": "(see README.md)",
        "confirmed": {
            "tests_with_change": tests,
            "tests_pass": rc_t == 0,
            "demo_exit_with_change": rc_with,
            "demo_exit_without_change": rc_without,
            "applies_to_repo_head": rc_a == 0,
            "ran": [
                f"cd {wt} && PYTHONPATH={wt} /venv/bin/python -m pytest -q -p no:cacheprovider tests",
                f"cd {wt} && PYTHONPATH={wt} /venv/bin/python {demo}   (with the change, and after git stash without it)",
            ],
        },
        "caught_by": [],
        "accepted": ok,
    }
    with open(os.path.join(dst, "meta.json"), "w") as f:
        json.dump(meta, f, indent=1)
    print(json.dumps(meta["confirmed"], indent=1))
    print("demo with change:", o_with[-300:].replace("\n", " | "))
    print("ACCEPTED" if ok else "REJECTED", dst)
    return 0 if ok else 1


if __name__ == "__main__":
    sys.exit(main())
