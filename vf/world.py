"""Workload generators: names, trees, materialisation, mutations, history inspection.  Everything is driven by
the `random.Random` handed in, so a case is reproducible from its seed string."""
import os
import shutil

FORMATS = ["md5", "sha1", "xxh128", "xxh3", "xxh64", "c4"]
ASC = "ascmhl"

_PLAIN = "abcdefghijklmnopqrstuvwxyzABCDEFGHIJKLMNOPQRSTUVWXYZ0123456789_-."
_EXT = [".txt", ".mov", ".dat", ".ari", ".r3d", ".wav", ".tmp", ".bak", ".xml", ".mhl", "", ""]
_UNI = [
    "\u00e4",
    "\u00f6",
    "\u00e9",
    "\u00df",
    "\u00f1",
    "\u03a9",
    "\u65e5\u672c\u8a9e",
    "\ud55c\uae00",
    "\u0444\u0430\u0439\u043b",
    "\U0001f600",
    "\U0001d4b3",
    "e\u0301",
    "a\u0308",
    "\u05e9\u05dc\u05d5\u05dd",
    "\u0645\u0631\u062d\u0628\u0627",
    "\u0130",
    "\u01c5",
]
# category Z* characters that are not control characters (U+2028/2029 are line/paragraph separators)
_ZSEP = ["\u2028", "\u2029", "\u00a0", "\u2003", "\u3000"]
_XML = ["&", "<", ">", '"', "'", "&amp;", "]]>", "<!--"]
_PUNCT = ["#", "!", "+", "(", ")", ",", ";", "=", "@", "~", "`", "$", "%", "^", "{", "}", "[", "]", "*", "?", "\\", ":", "|"]

NAME_CLASSES = ["plain", "space", "xml", "punct", "uni", "zsep", "dash", "dot", "nearmiss", "long", "dotend", "dotunder", "appledouble", "bracket", "lf"]
FORBIDDEN = {".", "..", ASC, ".DS_Store", ""}


def gen_name(rng, cls=None, ext=True):
    cls = cls or rng.choice(NAME_CLASSES)
    stem = "".join(rng.choice(_PLAIN[:62]) for _ in range(rng.randint(1, 8)))
    if cls == "plain":
        n = stem
    elif cls == "space":
        k = rng.randint(0, 3)
        n = [" " + stem, stem + " ", stem[:1] + " " + stem[1:] + " x", "  " + stem + "  y "][k]
    elif cls == "xml":
        n = stem[:2] + rng.choice(_XML) + stem[2:] + (rng.choice(_XML) if rng.random() < 0.3 else "")
    elif cls == "punct":
        n = stem[:2] + rng.choice(_PUNCT) + stem[2:] + (rng.choice(_PUNCT) if rng.random() < 0.3 else "")
    elif cls == "uni":
        n = rng.choice(_UNI) + stem[:3] + (rng.choice(_UNI) if rng.random() < 0.5 else "")
    elif cls == "zsep":
        n = stem[:2] + rng.choice(_ZSEP) + stem[2:]
    elif cls == "lf":
        # a line feed / tab / carriage return inside a name (legal for the file system, legal as XML text)
        n = stem[:2] + rng.choice(["\n", "\n", "\n\n", "\t", "\r", "\r\n", " \n ", "\n  "]) + stem[2:] + rng.choice(["", "", "\n"])
    elif cls == "dash":
        n = rng.choice(["-", "--", "-h", "-" + stem, "--" + stem])
    elif cls == "dot":
        n = rng.choice([".", "..", "..."]) + stem
    elif cls == "nearmiss":
        n = rng.choice(["ascmhl2", "ascmhl.txt", "my_ascmhl", ".DS_Store2", "x.DS_Store", "Ascmhl", "ASCMHL", "ascmhl ", ".ascmhl", "_ascmhl", "__ascmhl", "._ascmhl"])
    elif cls == "long":
        n = stem * rng.randint(8, 20)
    elif cls == "dotend":
        n = stem + rng.choice([".", "..", "_."])
        ext = False
    elif cls == "dotunder":
        n = stem[:2] + "._" + stem[2:]
    elif cls == "appledouble":
        n = "._" + stem
    elif cls == "bracket":
        n = stem[:3] + rng.choice([" [A001]", "[1]", " [a-c]", "[!x]", " {a,b}", "[[]"]) + stem[3:]
    else:
        raise ValueError(cls)
    if ext and cls not in ("nearmiss",) and rng.random() < 0.7:
        n += rng.choice(_EXT)
    n = n.replace("/", "_").replace("\x00", "_")
    while len(n.encode("utf-8")) > 200:
        n = n[: len(n) // 2]
    if n in FORBIDDEN:
        n = "n" + n
    return n


UNSTORABLE = ["\x07", "\x1b", "\x01", "\x1f", "\ufffe", "\uffff", "\x0b"]


def add_unstorable_name(rng, root, tree, where=None):
    """a file whose name is legal for the file system but cannot be stored in XML 1.0 (control character, U+FFFE/U+FFFF,
    or bytes that are not UTF-8).  Returns the relative path (str as os.listdir reports it) or None."""
    dirs = [""] + [k for k, v in tree.items() if v is None]
    par = rng.choice(dirs) if where is None else where
    stem = "".join(rng.choice(_PLAIN[:62]) for _ in range(rng.randint(1, 5)))
    if rng.random() < 0.2:
        name = os.fsdecode(stem.encode() + rng.choice([b"\xff", b"\xe9t\xe9", b"\xc3("]) + b".bin")
    else:
        name = stem + rng.choice(UNSTORABLE) + rng.choice(["", "x", ".mov"])
    rel = (par + "/" if par else "") + name
    p = os.path.join(root, rel)
    if os.path.lexists(p) or not os.path.isdir(os.path.dirname(p)):
        return None
    data = rng.randbytes(rng.randint(0, 9))
    with open(p, "wb") as f:
        f.write(data)
    tree[rel] = data
    return rel


def is_unstorable_error(r):
    """the tool's (uncaught) refusal to put such a name into XML"""
    return bool(r.internal and r.exc is not None and isinstance(r.exc, (ValueError, UnicodeError)) and ("XML compatible" in str(r.exc) or "surrogates not allowed" in str(r.exc)))


def root_name(rng, prefix="R"):
    """name for a history root folder: it ends up in manifest file names, so every name class matters"""
    cls = rng.choice(["plain", "plain", "space", "xml", "punct", "uni", "zsep", "dot", "dotend", "dotunder", "bracket", "long", "lf"])
    n = prefix + gen_name(rng, cls, ext=False)
    return n[:120]


def gen_bytes(rng, size=None):
    if size is None:
        size = rng.choice([0, 0, 1, 2, 3, 7, 16, 31, 64, 100, 255, 256, 1000, 4096])
    if size == 0:
        return b""
    k = rng.random()
    if k < 0.7:
        return rng.randbytes(size)
    if k < 0.8:
        return b"\x00" * size
    if k < 0.9:
        return b"\xff" * size
    pat = rng.randbytes(rng.randint(1, 5))
    return (pat * (size // len(pat) + 1))[:size]


def gen_tree(
    rng,
    max_files=10,
    max_dirs=5,
    max_depth=4,
    classes=None,
    distinct=False,
    min_files=0,
    empty_dirs=True,
    sizes=None,
):
    """returns {posix relpath: bytes | None(dir)}; parents are always present as explicit directory entries"""
    classes = classes or ["plain", "plain", "space", "xml", "punct", "uni", "zsep", "dash", "dot", "nearmiss", "long", "dotend", "dotunder", "appledouble", "bracket"]
    dirs = [""]
    depth = {"": 0}
    tree = {}
    used = {"": set()}
    ndirs = rng.randint(0, max_dirs)
    for _ in range(ndirs):
        parent = rng.choice([d for d in dirs if depth[d] < max_depth])
        for _try in range(5):
            n = gen_name(rng, rng.choice(classes), ext=False)
            if n not in used[parent] and n.lower() not in {u.lower() for u in used[parent]} | {ASC}:
                break
        else:
            continue
        used[parent].add(n)
        rel = (parent + "/" if parent else "") + n
        dirs.append(rel)
        depth[rel] = depth[parent] + 1
        used[rel] = set()
        tree[rel] = None
    nfiles = rng.randint(min_files, max(min_files, max_files))
    seen_content = set()
    for _ in range(nfiles):
        parent = rng.choice(dirs)
        for _try in range(5):
            n = gen_name(rng, rng.choice(classes))
            if n not in used[parent]:
                break
        else:
            continue
        used[parent].add(n)
        rel = (parent + "/" if parent else "") + n
        data = gen_bytes(rng, rng.choice(sizes) if sizes else None)
        if distinct:
            while data in seen_content or len(data) == 0:
                data = gen_bytes(rng, rng.randint(1, 64)) + bytes([len(seen_content) % 256])
            seen_content.add(data)
        tree[rel] = data
    if not empty_dirs:
        for d in [d for d in list(tree) if tree[d] is None]:
            if not any(k.startswith(d + "/") for k in tree):
                tree[d + "/f" + str(len(tree))] = gen_bytes(rng, 5) if not distinct else bytes([len(tree)]) * 3 + rng.randbytes(4)
    return tree


def write_tree(root, tree):
    os.makedirs(root, exist_ok=True)
    for rel in sorted(tree):
        p = os.path.join(root, rel)
        if tree[rel] is None:
            os.makedirs(p, exist_ok=True)
        else:
            os.makedirs(os.path.dirname(p), exist_ok=True)
            with open(p, "wb") as f:
                f.write(tree[rel])


def read_tree(root, skip_asc=True):
    """on-disk tree -> {rel: bytes|None} (ascmhl folders skipped when skip_asc)"""
    out = {}
    for dp, dns, fns in os.walk(root):
        if skip_asc and ASC in dns:
            dns.remove(ASC)
        for d in dns:
            if os.path.islink(os.path.join(dp, d)):
                continue  # links to folders are neither followed nor recorded
            out[os.path.relpath(os.path.join(dp, d), root)] = None
        for f in fns:
            p = os.path.join(dp, f)
            if os.path.islink(p) and not os.path.exists(p):
                continue  # a link that leads nowhere is neither a file nor a folder
            with open(p, "rb") as fh:
                out[os.path.relpath(p, root)] = fh.read()
    return out


def add_file_symlinks(rng, root, tree, n=1, outside=None):
    """create up to n symbolic links to regular files of `tree` (relative or absolute targets; target inside the tree or,
    when `outside` is a directory, a copy placed there).  Returns {link rel: target rel-or-abs}; `tree` gets the link with the
    target's bytes (a link to a file is recorded like the file it points to)."""
    files = sorted(k for k, v in tree.items() if v is not None)
    out = {}
    for i in range(n):
        if not files:
            break
        t = rng.choice(files)
        par = rng.choice([""] + sorted(k for k, v in tree.items() if v is None))
        rel = (par + "/" if par else "") + "lnk%d-" % i + os.path.basename(t)[:20]
        if rel in tree or os.path.lexists(os.path.join(root, rel)):
            continue
        if outside and rng.random() < 0.3:
            tp = os.path.join(outside, "target%d.bin" % i)
            with open(tp, "wb") as f:
                f.write(tree[t])
            target = tp
        elif rng.random() < 0.5:
            target = os.path.join(root, t)
        else:
            target = os.path.relpath(os.path.join(root, t), os.path.dirname(os.path.join(root, rel)))
        os.symlink(target, os.path.join(root, rel))
        tree[rel] = tree[t]
        out[rel] = target
    return out


def add_dir_symlinks(rng, root, tree, n=1, outside=None):
    """create up to n symbolic links to folders: one of the tree, the folder above the link (a loop) or, when `outside` is a
    directory, a folder there.  Such links are neither followed nor recorded; `tree` is left as it is.  Returns the links."""
    dirs = sorted(k for k, v in tree.items() if v is None)
    out = []
    for i in range(n):
        par = rng.choice([""] + dirs)
        rel = (par + "/" if par else "") + "dlnk%d" % i
        if rel in tree or os.path.lexists(os.path.join(root, rel)) or not os.path.isdir(os.path.join(root, par)):
            continue
        k = rng.random()
        if outside and k < 0.3:
            tp = os.path.join(outside, "tdir%d" % i)
            os.makedirs(tp, exist_ok=True)
            with open(os.path.join(tp, "inside.bin"), "wb") as f:
                f.write(b"outside" + rng.randbytes(3))
            target = tp
        elif k < 0.45:
            target = ".."
        elif dirs:
            t = rng.choice(dirs)
            target = os.path.join(root, t) if rng.random() < 0.5 else os.path.relpath(os.path.join(root, t), os.path.dirname(os.path.join(root, rel)))
        else:
            target = "."
        os.symlink(target, os.path.join(root, rel))
        out.append(rel)
    return out


def set_mtimes(root, rng=None, lo=978307200, hi=1893456000, fixed=None):
    """bottom-up so that directory mtimes stick; returns {rel: epoch}"""
    out = {}
    for dp, dns, fns in os.walk(root, topdown=False):
        for n in fns + dns:
            p = os.path.join(dp, n)
            if os.path.islink(p):
                continue
            t = fixed if fixed is not None else rng.randint(lo, hi)
            os.utime(p, (t, t))
            out[os.path.relpath(p, root)] = t
    t = fixed if fixed is not None else rng.randint(lo, hi)
    os.utime(root, (t, t))
    out["."] = t
    return out


def copy_tree(src, dst):
    shutil.copytree(src, dst, symlinks=True)


# ---------------------------------------------------------------- histories on disk
def find_histories(root):
    """relative roots ('.' for root itself) of every history below root, sorted, parents first"""
    out = []
    for dp, dns, fns in os.walk(root):
        if ASC in dns:
            out.append(os.path.relpath(dp, root))
            dns.remove(ASC)
    return sorted(out, key=lambda r: (r != ".", r.count("/"), r))


def manifests(root, hist="."):
    d = os.path.join(root, hist, ASC) if hist != "." else os.path.join(root, ASC)
    if not os.path.isdir(d):
        return []
    # AppleDouble twins ("._name.mhl") are documented as not being manifests
    return sorted(n for n in os.listdir(d) if n.endswith(".mhl") and not n.startswith("._"))


def asc_listing(root):
    """{history rel: sorted names in its ascmhl folder}"""
    return {h: sorted(os.listdir(os.path.join(root, h, ASC))) for h in find_histories(root)}


def owner(rel, hists):
    """deepest history (from list of history roots) that records entry `rel`.  The root directory of a nested
    history is an entry of its *parent* history (its own history holds it as root hash)."""
    best = "."
    for h in hists:
        if h == ".":
            continue
        if rel.startswith(h + "/") and len(h) > len(best if best != "." else ""):
            best = h
    return best


def rel_to(rel, hist):
    return rel if hist == "." else rel[len(hist) + 1 :]


# ---------------------------------------------------------------- mutations
MUTATIONS = ["flip", "append", "truncate", "replace", "delete_file", "delete_empty_dir", "add_file", "touch"]


def mutate(rng, root, tree, kind, protect=()):
    """apply one mutation on disk and in `tree` (dict is updated); returns dict describing it or None if not applicable.
    protect: rel paths that must not be chosen"""
    files = [r for r in tree if tree[r] is not None and r not in protect]
    dirs = [r for r in tree if tree[r] is None and r not in protect]
    if kind in ("flip", "replace", "truncate"):
        cand = [r for r in files if len(tree[r]) > 0]
        if not cand:
            return None
        r = rng.choice(cand)
        b = bytearray(tree[r])
        if kind == "flip":
            i = rng.randrange(len(b))
            b[i] ^= 1 << rng.randrange(8)
        elif kind == "replace":
            nb = bytearray(rng.randbytes(len(b)))
            if nb == b:
                nb[0] ^= 1
            b = nb
        else:
            b = b[: rng.randrange(len(b))]
        st = os.stat(os.path.join(root, r))
        with open(os.path.join(root, r), "wb") as f:
            f.write(bytes(b))
        if kind != "truncate" and rng.random() < 0.5:
            os.utime(os.path.join(root, r), ns=(st.st_atime_ns, st.st_mtime_ns))  # same size, same mtime
        tree[r] = bytes(b)
        return {"kind": kind, "path": r, "class": "altered"}
    if kind == "append":
        if not files:
            return None
        r = rng.choice(files)
        extra = rng.randbytes(rng.randint(1, 9))
        with open(os.path.join(root, r), "ab") as f:
            f.write(extra)
        tree[r] = tree[r] + extra
        return {"kind": kind, "path": r, "class": "altered"}
    if kind == "delete_file":
        if not files:
            return None
        r = rng.choice(files)
        os.remove(os.path.join(root, r))
        del tree[r]
        return {"kind": kind, "path": r, "class": "removed"}
    if kind == "delete_empty_dir":
        cand = [d for d in dirs if not any(k.startswith(d + "/") for k in tree) and not os.listdir(os.path.join(root, d))]
        if not cand:
            return None
        r = rng.choice(cand)
        os.rmdir(os.path.join(root, r))
        del tree[r]
        return {"kind": kind, "path": r, "class": "removed"}
    if kind == "add_file":
        parent = rng.choice([""] + dirs)
        for _ in range(10):
            n = gen_name(rng, rng.choice(["plain", "space", "uni", "xml"]))
            rel = (parent + "/" if parent else "") + n
            if rel not in tree:
                break
        else:
            return None
        data = gen_bytes(rng)
        with open(os.path.join(root, rel), "wb") as f:
            f.write(data)
        tree[rel] = data
        return {"kind": kind, "path": rel, "class": "added"}
    if kind == "touch":
        cand = files + dirs
        if not cand:
            return None
        r = rng.choice(cand)
        t = rng.randint(978307200, 1893456000)
        os.utime(os.path.join(root, r), (t, t))
        return {"kind": kind, "path": r, "class": "touched"}
    raise ValueError(kind)


def gen_formats(rng, repeat=False):
    k = rng.choice([1, 1, 1, 2, 2, 3, 6])
    fm = rng.sample(FORMATS, k)
    if repeat and rng.random() < 0.15:
        fm.append(rng.choice(fm))
    return fm


def fmt_args(formats):
    a = []
    for f in formats:
        a += ["-h", f]
    return a
