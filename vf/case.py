"""One generated case = one reproducible unit of work of a monitor (seed string -> rng)."""
import json
import os
import shutil

from . import env


class Case:
    def __init__(self, prop, seed_str, tier, acc):
        self.prop = prop
        self.seed_str = seed_str
        self.tier = tier
        self.rng = env.rng_for(seed_str)
        self.acc = acc
        self._dir = None
        self._n = 0

    # ---- scratch
    def dir(self, name=None):
        """fresh sub directory of this case's scratch area"""
        if self._dir is None:
            self._dir = env.new_scratch()
        self._n += 1
        d = os.path.join(self._dir, name or f"w{self._n}")
        os.makedirs(d)
        return d

    def cleanup(self):
        if self._dir is not None:
            env.drop_scratch(self._dir)
            self._dir = None

    # ---- bookkeeping
    def count(self, key, n=1):
        self.acc["counters"][key] = self.acc["counters"].get(key, 0) + n

    def evaluated(self, n=1):
        self.acc["evaluations"] += n

    def cls(self, *parts):
        self.acc["classes"].add("|".join(str(p) for p in parts))

    def sample(self, obj, limit=4):
        if len(self.acc["samples"]) < limit:
            self.acc["samples"].append(_jsonable(obj))

    def skip(self, why):
        """generated but not judged (statement silent / precondition not met)"""
        self.count("not_judged:" + why)

    def violation(self, key, sig, detail=None):
        self.acc["violations"].append(
            {"key": key, "sig": _jsonable(sig), "detail": _jsonable(detail or {}), "case": self.seed_str}
        )


def _jsonable(o):
    try:
        json.dumps(o)
        return o
    except Exception:
        if isinstance(o, dict):
            return {str(k): _jsonable(v) for k, v in o.items()}
        if isinstance(o, (list, tuple, set)):
            return [_jsonable(v) for v in o]
        if isinstance(o, bytes):
            return o[:64].hex() + ("..." if len(o) > 64 else "")
        return repr(o)


def new_acc():
    return {"evaluations": 0, "classes": set(), "counters": {}, "samples": [], "violations": [], "harness_errors": [], "cases": 0, "cases_skipped_time": 0}
